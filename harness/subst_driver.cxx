// subst_driver.cxx — substitutions (C16).
// stdin:  elem <p> <v> ? q1 q2 ...          elementary substitution p -> value v
//         gen <p>:<v>,<p>:<v>,... ? q1 ...   general substitution, bindings applied in order ("-" = none)
//         copy <bindings> <later> ? q1 ...   a general substitution with <bindings> is copied (assignment into a second one made by
//                                            the Lexicon), then the ORIGINAL receives the <later> bindings; the COPY is queried
//         copyc <bindings> <later> ? q1 ...  the same with a copy-constructed local object
// parameters 0..15 belong to one mapping, 16..31 to another; values are expression indices.
// stdout: for each query, "v<k>" (the k-th value) or "p<k>" (the parameter itself) or "?" (something else)
#include <ipr/impl>
#include <cstdio>
#include <iostream>
#include <sstream>
#include <string>
#include <vector>
#include <memory>
#include <type_traits>
using namespace ipr;

int main()
{
   impl::Lexicon lex;
   impl::Translation_unit unit { lex };
   auto& greg = *unit.global_region();
   std::vector<const ipr::Parameter*> params;
   // three parameter lists: two nested ones (levels 1, 2) and a sibling of the first at the SAME level, so that parameters
   // of different lists share (level, position)
   for (int m = 0; m < 3; ++m) {
      auto* map = lex.make_mapping(greg, Mapping_level{ size_t(m == 2 ? 1 : m + 1) });
      for (int i = 0; i < 16; ++i) {
         std::u8string s = u8"p"; s += char8_t('a' + i);
         auto* prm = map->param(lex.get_identifier(s), lex.int_type());
         // every third parameter has a default argument (a literal of its own): a default is not a binding
         if (i % 3 == 1) prm->init = lex.make_literal(lex.int_type(), u8"1024");
         params.push_back(prm);
      }
   }
   std::vector<const ipr::Expr*> values;
   for (int i = 0; i < 64; ++i) values.push_back(lex.make_phantom());
   for (auto p : params) values.push_back(p);          // values 64.. are the parameters themselves (renamings, identity bindings)
   // values 112..119 are variables: four names, each declared twice (the second is a redeclaration with its own node); they are handed to
   // subst through their static type impl::Var&, as client code holding declarations does
   std::vector<impl::Var*> var_of(values.size(), nullptr);
   for (int round = 0; round < 2; ++round)
      for (int i = 0; i < 4; ++i) {
         std::u8string s = u8"g"; s += char8_t('a' + i);
         auto* v = greg.declare_var(lex.get_identifier(s), lex.int_type());
         values.push_back(v); var_of.push_back(v);
      }
   auto bind1 = [&](impl::General_substitution& g, const ipr::Parameter& p, std::size_t vi) -> impl::General_substitution& {
      if (vi < var_of.size() and var_of[vi] != nullptr) return g.subst(p, *var_of[vi]);
      return g.subst(p, *values.at(vi));
   };
   auto show = [&](const ipr::Expr& e) {
      for (size_t i = 0; i < 64; ++i) if (values[i] == &e) return "v" + std::to_string(i);
      for (size_t i = 0; i < params.size(); ++i) if (static_cast<const ipr::Expr*>(params[i]) == &e) return "p" + std::to_string(i);
      for (size_t i = 64 + params.size(); i < values.size(); ++i) if (values[i] == &e) return "d" + std::to_string(i - 64 - params.size());
      return std::string("?");
   };
   std::string line;
   while (std::getline(std::cin, line)) {
      std::stringstream ss(line);
      std::string mode; ss >> mode;
      const ipr::Substitution* s = nullptr;
      if (mode == "elem") {
         int p, v; ss >> p >> v;
         s = lex.make_elementary_substitution(*params.at(p), *values.at(v));
      }
      else if (mode == "gen") {
         std::string b; ss >> b;
         auto* g = lex.make_general_substitution();
         if (b != "-") {
            // bindings are given the way client code writes them: g.subst(p1, v1).subst(p2, v2)... in chains of up to three calls
            std::vector<std::pair<const ipr::Parameter*, std::size_t>> bindings;
            std::stringstream bs(b); std::string tok;
            while (std::getline(bs, tok, ',')) {
               auto c = tok.find(':');
               bindings.push_back({ params.at(std::stoi(tok.substr(0, c))), std::size_t(std::stoi(tok.substr(c + 1))) });
               (void) values.at(bindings.back().second);
            }
            std::size_t i = 0;
            while (i < bindings.size()) {
               std::size_t left = bindings.size() - i;
               if (left >= 3 and i % 2 == 0) { bind1(bind1(bind1(*g, *bindings[i].first, bindings[i].second), *bindings[i + 1].first, bindings[i + 1].second), *bindings[i + 2].first, bindings[i + 2].second); i += 3; }
               else if (left >= 2) { bind1(bind1(*g, *bindings[i].first, bindings[i].second), *bindings[i + 1].first, bindings[i + 1].second); i += 2; }
               else { bind1(*g, *bindings[i].first, bindings[i].second); i += 1; }
            }
         }
         s = g;
      }
      else if (mode == "copy" or mode == "copyc") {
         std::string b, later; ss >> b >> later;
         auto bind = [&](impl::General_substitution& g, const std::string& bs_) {
            if (bs_ == "-") return;
            std::stringstream bs(bs_); std::string tok;
            while (std::getline(bs, tok, ',')) {
               auto c = tok.find(':');
               bind1(g, *params.at(std::stoi(tok.substr(0, c))), std::size_t(std::stoi(tok.substr(c + 1))));
            }
         };
         auto* g = lex.make_general_substitution();
         bind(*g, b);
         if constexpr (std::is_copy_assignable_v<impl::General_substitution> and std::is_copy_constructible_v<impl::General_substitution>) {
            static std::vector<std::unique_ptr<impl::General_substitution>> locals;
            impl::General_substitution* c = nullptr;
            if (mode == "copy") { c = lex.make_general_substitution(); *c = *g; }
            else { locals.push_back(std::make_unique<impl::General_substitution>(*g)); c = locals.back().get(); }
            bind(*g, later);
            s = c;
         }
         else {
            std::printf("n/a\n");
            continue;
         }
      }
      else continue;
      std::string q; ss >> q;   // "?"
      std::string out;
      int k;
      while (ss >> k) { if (not out.empty()) out += ' '; out += show((*s)[*params.at(k)]); }
      std::printf("%s\n", out.empty() ? "-" : out.c_str());
   }
}
