// fsweep.h — operand pools with printable names and a generic dumper that reads EVERY
// parameterless const accessor an interface object has (list regenerated from the headers:
// accessors.def) and prints its result canonically.  Used by the factory sweep
// (C02, C09, C14) and the re-observation driver (C05).
#ifndef IPRV_FSWEEP_H
#define IPRV_FSWEEP_H
#include <ipr/impl>
#include <ipr/io>
#include <ipr/traversal>
#include <cstdio>
#include <map>
#include <string>
#include <iterator>
#include <vector>
#include <memory>
#include <type_traits>
#include <stdexcept>
#include <typeinfo>

namespace iprv {
using namespace ipr;

static const char* cat_name(ipr::Category_code c)
{
   switch (c) {
#define CAT(X) case ipr::Category_code::X: return #X;
#include "categories.def"
#undef CAT
   }
   return "?";
}

struct Names {
   std::map<const void*, std::string> m;
   void set(const void* p, const std::string& n) { if (m.find(p) == m.end()) m[p] = n; }
   std::string of(const void* p) const { auto it = m.find(p); return it == m.end() ? std::string() : it->second; }
};
inline Names& names() { static Names n; return n; }
inline const void*& self_ptr() { static const void* p = nullptr; return p; }

template<class T> const void* ident(const T& t)
{
   if constexpr (std::is_polymorphic_v<T>) return dynamic_cast<const void*>(&t);
   else return &t;
}

template<class T> struct is_optional : std::false_type { };
template<class T> struct is_optional<ipr::Optional<T>> : std::true_type { };
template<class T> struct is_sequence_ref : std::false_type { };
template<class T> struct is_sequence_ref<ipr::Sequence<T>> : std::true_type { };
template<class T> struct is_vector : std::false_type { };
template<class T, class A> struct is_vector<std::vector<T, A>> : std::true_type { };

inline std::string hexs(util::word_view v)
{
   static const char* d = "0123456789abcdef";
   std::string s = "x:";
   for (char8_t c : v) { s += d[(unsigned(c) >> 4) & 15]; s += d[unsigned(c) & 15]; }
   return v.empty() ? "x:-" : s;
}

template<class T> std::string show(const T& v);

// an object that has no name of its own: one level of structure, so that what it was built from is visible
inline std::string describe_node(const ipr::Node& n);

template<class T> std::string show_object(const T& t)
{
   const void* p = ident(t);
   auto n = names().of(p);
   if (not n.empty()) return n;
   if (p == self_ptr()) return "self";
   if constexpr (std::is_base_of_v<ipr::Node, T>) return describe_node(t);
   else if constexpr (std::is_base_of_v<ipr::Logogram, T>) return "Logogram(" + show(t.what()) + ")";
   else if constexpr (std::is_same_v<ipr::Linkage, T>) return "Linkage(" + show(t.language().what()) + ")";
   else if constexpr (std::is_same_v<ipr::Calling_convention, T>) return "Convention(" + show(t.name().what()) + ")";
   else if constexpr (std::is_same_v<ipr::Using_declaration::Designator, T>) return "Designator(" + show(t.path()) + ":" + show(t.mode()) + ")";
   else return std::string("?obj");
}

template<class T> std::string show(const T& v)
{
   using U = std::remove_cvref_t<T>;
   if constexpr (std::is_same_v<U, bool>) return v ? "true" : "false";
   else if constexpr (std::is_enum_v<U>) return std::to_string((long long) v);
   else if constexpr (std::is_integral_v<U>) return std::to_string((long long) v);
   else if constexpr (std::is_same_v<U, util::word_view>) return hexs(v);
   else if constexpr (is_optional<U>::value) return v.is_valid() ? show(v.get()) : std::string("none");
   else if constexpr (std::is_base_of_v<ipr::String, U>) { auto n = names().of(ident(v)); return n.empty() ? hexs(v.characters()) : n; }
   else if constexpr (std::is_same_v<U, ipr::Source_location>) return "loc(" + std::to_string((long) v.line) + ":" + std::to_string((long) v.column) + ":" + std::to_string((long) v.file) + ")";
   else if constexpr (std::is_same_v<U, ipr::Unit_location>) return "uloc(" + std::to_string((long) v.line) + ":" + std::to_string((long) v.column) + ":" + std::to_string((long) v.unit) + ")";
   else if constexpr (std::is_same_v<U, ipr::Basic_specifier> or std::is_same_v<U, ipr::Basic_qualifier>) return "basic(" + hexs(v.logogram().what().characters()) + ")";
   else if constexpr (is_vector<U>::value) { std::string s = "["; for (auto& e : v) { if (s.size() > 1) s += ","; s += show(e); } return s + "]"; }
   else if constexpr (requires { v.size(); v.begin(); v.end(); *v.begin(); } and not std::is_base_of_v<ipr::Node, U>) {
      // a Sequence<T>: element-wise (bounded)
      std::string s = "[";
      std::size_t k = 0;
      for (auto& e : v) { if (k++) s += ","; if (k > 64) { s += "..."; break; } s += show(e); }
      return s + "]";
   }
   else if constexpr (std::is_pointer_v<U>) return v == nullptr ? std::string("null") : show(*v);
   else if constexpr (std::is_class_v<U>) return show_object(v);
   else return "?";
}

inline std::string describe_node(const ipr::Node& n)
{
   auto inner = [&]() -> std::string {
      if (auto p = util::view<ipr::Asm>(n)) return "Asm(" + show(p->text()) + ")";
      if (auto p = util::view<ipr::Static_assert>(n)) return "Static_assert(" + show(p->condition()) + ":" + show(p->message()) + ")";
      if (auto p = util::view<ipr::Identifier>(n)) return "Identifier(" + show(p->string()) + ")";
      if (auto p = util::view<ipr::Type_id>(n)) return "Type_id(" + show(p->type_expr()) + ")";
      if (auto p = util::view<ipr::Product>(n)) return "Product" + show(p->elements());
      if (auto p = util::view<ipr::Region>(n)) return "Region(in:" + show(p->enclosing()) + ")";
      if (auto p = util::view<ipr::Parameter_list>(n)) return "Parameter_list(in:" + show(p->region().enclosing()) + ":level:" + show(p->level()) + ")";
      return std::string("?") + cat_name(n.category);
   };
   try { return inner(); }
   catch (const std::logic_error&) { return std::string("?") + cat_name(n.category) + "(E)"; }
}

template<class F> std::string guarded(F f)
{
   try { return f(); }
   catch (const std::logic_error&) { return "E"; }
   catch (const std::exception& e) { return std::string("X(") + typeid(e).name() + ")"; }
   catch (...) { return "X(?)"; }
}

// the type of a sub-node (or of every element of a sub-sequence): lets C09 check borrowed and sequence types
template<class V> std::string sub_types(const std::string& name, const V& v)
{
   using U = std::remove_cvref_t<V>;
   if constexpr (is_optional<U>::value) { return v.is_valid() ? sub_types(name, v.get()) : std::string(); }
   else if constexpr (std::is_base_of_v<ipr::Expr, U>) {
      return name + ".type=" + guarded([&] { return show(v.type()); }) + " ";
   }
   else if constexpr (requires { v.size(); v.begin(); v.end(); *v.begin(); } and not std::is_base_of_v<ipr::Node, U>) {
      if constexpr (std::is_base_of_v<ipr::Expr, std::remove_cvref_t<decltype(*v.begin())>>) {
         std::string s = name + ".types=[";
         std::size_t k = 0;
         for (auto& e : v) { if (k++) s += ","; if (k > 64) { s += "..."; break; } s += guarded([&] { return show(e.type()); }); }
         return s + "] ";
      }
      else return std::string();
   }
   else return std::string();
}

// positional access and iteration of a sequence-valued result (C14): iteration must visit size() elements and
// agree with get(i); get(size()), get(size()+1) and get(max) must be refused with a logic_error
template<class V> std::string seq_probe(const std::string& name, const V& v)
{
   using U = std::remove_cvref_t<V>;
   if constexpr (is_optional<U>::value) { return v.is_valid() ? seq_probe(name, v.get()) : std::string(); }
   else if constexpr (requires { v.size(); v.begin(); v.end(); *v.position(v.size()); }) {
      std::string s = name + ".probe=";
      std::size_t n = v.size(), count = 0;
      bool agree = true;
      auto walk = guarded([&] {
         for (auto it = v.begin(); it != v.end(); ++it) {
            if (count < n and count < 200) agree = agree and (&*it == &*v.position(count));
            if (++count > n + 4) break;
         }
         return std::string("ok");
      });
      // the same walk backwards, with prefix and with postfix decrement, and forwards with postfix increment
      std::size_t back = 0, backp = 0, fwdp = 0;
      bool agree2 = true;
      auto walk2 = guarded([&] {
         for (auto it = v.end(); it != v.begin();) { --it; ++back; if (back <= n and n - back < 200) agree2 = agree2 and (&*it == &*v.position(n - back)); if (back > n + 4) break; }
         for (auto it = v.end(); it != v.begin();) { auto old = it--; if (old == it) break; ++backp; if (backp <= n and n - backp < 200) agree2 = agree2 and (&*it == &*v.position(n - backp)); if (backp > n + 4) break; }
         for (auto it = v.begin(); it != v.end();) { auto old = it++; if (fwdp < n and fwdp < 200) agree2 = agree2 and (&*old == &*v.position(fwdp)); ++fwdp; if (fwdp > n + 4) break; }
         return std::string("ok");
      });
      // strided walks through the standard library's iterator algorithms, forwards and on reverse iterators (they use whatever
      // stepping operations the iterator offers: ++/-- one at a time, or += / -= when it says it is random access)
      bool agree3 = true;
      auto walk3 = guarded([&] {
         if (n >= 1) {
            for (std::size_t stride : { std::size_t(1), std::size_t(2), std::size_t(3) }) {
               std::size_t at = 0;
               for (auto it = v.begin(); at < n and at < 120; at += stride) { agree3 = agree3 and (&*it == &*v.position(at)); if (at + stride < n) std::advance(it, stride); else break; }
               auto rit = std::make_reverse_iterator(v.end());
               for (std::size_t k = 0; k < n and k < 120; k += stride) { agree3 = agree3 and (&*rit == &*v.position(n - 1 - k)); if (k + stride < n) std::advance(rit, stride); else break; }
            }
            auto mid = std::next(v.begin(), n / 2);
            agree3 = agree3 and (&*mid == &*v.position(n / 2)) and (n < 2 or &*std::prev(mid, n / 2) == &*v.position(0));
         }
         return std::string("ok");
      });
      s += "n" + std::to_string(n) + (walk == "ok" ? "" : ":WALK-" + walk) + (count == n or walk != "ok" ? "" : ":COUNT" + std::to_string(count)) + (agree ? "" : ":DISAGREE");
      if (walk2 != "ok") s += ":WALK2-" + walk2;        // backwards / postfix walks (a refusal here is legitimate only if the forward walk was refused too)
      else if (back != n or backp != n or fwdp != n) s += ":COUNT" + std::to_string(back) + "/" + std::to_string(backp) + "/" + std::to_string(fwdp);
      if (not agree2) s += ":DISAGREE";
      if (walk3 != "ok" and walk == "ok") s += ":WALK3-" + walk3;      // strided walks are refused although the plain forward walk is not
      if (not agree3) s += ":DISAGREE";
      const std::size_t idx[] = { n, n + 1, n + 1000000, std::size_t(-1) / 2, std::size_t(-1) };
      for (auto i : idx) s += ":" + guarded([&] { (void) &*v.position(i); return std::string("ACCEPTED"); });
      return s + " ";
   }
   else return std::string();
}

inline std::vector<const ipr::Parameter*>& probe_params() { static std::vector<const ipr::Parameter*> v; return v; }

// read every accessor the static interface type I offers
template<class I> std::string dump(const I& x)
{
   std::string out;
   if constexpr (std::is_base_of_v<ipr::Node, I>) out += std::string("category=") + cat_name(x.category) + " ";
#define ACC(N) if constexpr (requires { x.N(); }) { \
      if constexpr (not std::is_void_v<decltype(x.N())>) { \
         out += std::string(#N "=") + guarded([&] { return show(x.N()); }) + " "; \
         if (std::string(#N) != "type") { auto st = guarded([&] { return sub_types(#N, x.N()); }); if (st != "E" and st.rfind("X(", 0) != 0) out += st; } \
         { auto sp = guarded([&] { return seq_probe(#N, x.N()); }); if (sp != "E") out += sp; } } }
#include "accessors.def"
#undef ACC
   // a substitution: its value at every parameter of the pool
   if constexpr (requires { x[*probe_params().front()]; }) {
      out += "subst=";
      for (auto pp : probe_params()) {                      // identity entries are left out
         auto v = guarded([&] { return show(x[*pp]); });
         if (v != show(*pp)) out += show(*pp) + ":" + v + ",";
      }
      out += " ";
   }
   return out;
}

template<class T> struct iface_of { using type = impl::projection<T>; };
template<class T> const typename iface_of<T>::type& as_iface(const T& t) { return t; }

// ---------------------------------------------------------------------------------
// operand pools: distinguishable, named operands of every sort the factories take
// ---------------------------------------------------------------------------------
struct Pools {
   impl::Lexicon lex;
   impl::Translation_unit unit { lex };
   impl::attr_factory attrs;
   impl::capture_spec_factory caps;
   impl::Region* greg = nullptr;
   std::vector<const ipr::Expr*> exprs;
   std::vector<const ipr::Type*> types;
   std::vector<const ipr::Identifier*> ids;
   std::vector<const ipr::String*> strs;
   std::vector<const ipr::Region*> regs;
   std::vector<const ipr::Product*> prods;
   std::vector<const ipr::Sum*> sums;
   std::vector<const ipr::Expr_list*> xlists;
   std::vector<const ipr::Enclosure*> enclosures;
   std::vector<const ipr::Construction*> constructions;
   std::vector<const ipr::Block*> blocks;
   std::vector<const ipr::Scope*> scopes;
   std::vector<const ipr::Scope_ref*> scope_refs;
   std::vector<const ipr::Decl*> decls;
   std::vector<const ipr::Parameter*> params;
   std::vector<const ipr::Template*> templates;
   std::vector<const ipr::Literal*> literals;
   std::vector<const ipr::Substitution*> substs;
   std::vector<const ipr::Linkage*> linkages;
   std::vector<const ipr::Calling_convention*> ccs;
   std::vector<const ipr::Transfer*> transfers;
   std::vector<std::unique_ptr<impl::Token>> tokens;
   std::vector<const ipr::Attribute*> attributes;
   std::vector<std::unique_ptr<impl::ref_sequence<ipr::Attribute>>> attr_seqs;
   std::vector<std::unique_ptr<impl::ref_sequence<ipr::Type>>> type_seqs;
   std::vector<std::unique_ptr<impl::Warehouse<ipr::Type>>> houses;
   std::vector<const cxx_form::Species_declarator*> species;
   std::vector<const cxx_form::Elemental_initializer*> initializers;
   std::vector<const ipr::Capture_specification::Named*> named_caps;
   std::vector<std::u8string> words;

   template<class V, class T> void reg(V& v, const T& t, const char* prefix)
   {
      names().set(ident(t), prefix + std::to_string(v.size()));
      v.push_back(&t);
   }
   void name_constants()
   {
#define T(N) names().set(ident(lex.N##_type()), "$" #N);
      T(void) T(bool) T(char) T(schar) T(uchar) T(wchar_t) T(char8_t) T(char16_t) T(char32_t) T(short) T(ushort)
      T(int) T(uint) T(long) T(ulong) T(long_long) T(ulong_long) T(float) T(double) T(long_double) T(ellipsis)
      T(typename) T(class) T(union) T(enum) T(namespace)
#undef T
      names().set(ident(lex.false_value()), "$false"); names().set(ident(lex.true_value()), "$true");
      names().set(ident(lex.nullptr_value()), "$nullptr"); names().set(ident(lex.default_value()), "$default");
      names().set(ident(lex.delete_value()), "$delete"); names().set(ident(lex.nullptr_value().type()), "$nulltype");
      names().set(ident(impl::cxx_transfer()), "$natural"); names().set(&lex.c_linkage(), "$c_link"); names().set(&lex.cxx_linkage(), "$cxx_link");
      names().set(&impl::cxx_transfer().convention(), "$natural_cc");
      names().set(ident(ipr::String::empty_string()), "$empty_string");
   }
   Pools()
   {
      greg = unit.global_region();
      name_constants();
      names().set(ident(*greg), "Rglobal");
      names().set(ident(unit.global_namespace()), "NSglobal");
      for (int i = 0; i < 12; ++i) {
         auto* c = lex.make_class(*greg); reg(types, *c, "T");
         std::u8string s = u8"id"; s += char8_t('a' + i);
         reg(ids, lex.get_identifier(s), "I");
         std::u8string t = u8"str"; t += char8_t('a' + i);
         reg(strs, lex.get_string(t), "S");
         reg(regs, *greg->make_subregion(), "R");
         words.push_back(u8"w" + std::u8string(1, char8_t('a' + i)));
      }
      // E<i> is an expression of type T<(i+7)%12>, so that a borrowed type is distinguishable from an operand index
      for (int i = 0; i < 12; ++i) reg(exprs, *lex.make_phantom(*types[(i + 7) % 12]), "E");
      for (int i = 0; i < 6; ++i) {
         impl::Warehouse<ipr::Type> w; for (int j = 0; j <= i; ++j) w.push_back(*types[j]);
         reg(prods, lex.get_product(w), "P");
         reg(sums, lex.get_sum(w), "U");
         auto* xl = lex.make_expr_list(); xl->push_back(exprs[i]); reg(xlists, *xl, "XL");
         auto* en = lex.make_enclosure(ipr::Delimiter::Paren, *exprs[i]); reg(enclosures, *en, "EN");
         reg(constructions, *lex.make_construction(*types[i], *en), "CO");
         reg(blocks, *lex.make_block(*greg), "B");
         auto* sr = lex.make_scope_ref(*exprs[i], *exprs[i + 1]); reg(scope_refs, *sr, "SR");
         auto* m = lex.make_mapping(*greg, Mapping_level{ 1 });
         reg(params, *m->param(*ids[i], *types[i]), "PA"); probe_params().push_back(params.back());
         auto* v = greg->declare_var(*ids[i], *types[i]); reg(decls, *v, "D");
         auto* cls = lex.make_class(*greg); reg(scopes, cls->region().bindings(), "SC");
         auto& fa = lex.get_forall(*prods[0], *types[i]);
         reg(templates, *greg->declare_primary_template(*ids[6 + i % 6], fa), "TM");
         reg(literals, lex.get_literal(*types[i], *strs[i]), "L");
         reg(substs, *lex.make_general_substitution(), "SU");
         std::u8string lw = u8"Lang"; lw += char8_t('A' + i);
         reg(linkages, lex.get_linkage(lw), "LK");
         std::u8string cw = u8"conv"; cw += char8_t('a' + i);
         reg(ccs, lex.get_calling_convention(cw), "CC");
         reg(transfers, lex.get_transfer(*linkages[i], *ccs[i]), "X");
         tokens.push_back(std::make_unique<impl::Token>(*strs[i], ipr::Source_location{ }, ipr::TokenValue{ }, ipr::TokenCategory{ }));
         names().set(ident(*tokens.back()), "TK" + std::to_string(i));
         names().set(ident(static_cast<const ipr::Lexeme&>(*tokens.back())), "TK" + std::to_string(i) + ".lexeme");
         reg(attributes, attrs.make_basic_attribute(*tokens.back()), "A");
         attr_seqs.push_back(std::make_unique<impl::ref_sequence<ipr::Attribute>>()); attr_seqs.back()->push_back(attributes.back());
         names().set(ident(*attr_seqs.back()), "AS" + std::to_string(i));
         type_seqs.push_back(std::make_unique<impl::ref_sequence<ipr::Type>>());
         for (int j = 0; j <= i; ++j) type_seqs.back()->push_back(types[(j + 3) % 12]);
         houses.push_back(std::make_unique<impl::Warehouse<ipr::Type>>());
         for (int j = 0; j <= i; ++j) houses.back()->push_back(*types[(j + 5) % 12]);
         reg(species, *greg->make_unqualified_id_species(*ids[i]), "SP");
         reg(initializers, *greg->make_braced_provision(), "IN");
         reg(named_caps, caps.enclosing_local_capture(*decls.back(), ipr::Binding_mode::Copy), "NC");
      }
      // declarations named by something other than an identifier: an operator, a conversion, a constructor name
      const ipr::Name* odd[] = { &lex.get_operator(u8"+"), &lex.get_conversion(*types[7]), &lex.get_ctor_name(*types[8]) };
      for (int k = 0; k < 3; ++k) {
         names().set(ident(*odd[k]), "DN" + std::to_string(6 + k));
         auto* v = greg->declare_var(*odd[k], *types[6 + k]); reg(decls, *v, "D");
      }
      // a variable declared with a placeholder type whose initializer is already set (`auto v = e;`), and an ordinary
      // initialised variable: what names them has the DECLARED type
      {
         auto& placeholder = lex.get_as_type(lex.get_identifier(u8"auto"));
         names().set(ident(placeholder), "$auto");
         auto* v = greg->declare_var(*ids[9], placeholder); v->init = exprs[0]; reg(decls, *v, "D");
         auto* r = greg->declare_var(*ids[10], *types[10]); r->init = exprs[1]; reg(decls, *r, "D");
      }
   }
};
}
#endif
