// c19_driver.cxx — destroying a Lexicon frees all its memory; live use touches only
// live storage (C19).  Builds and destroys many Lexicons in one process (ASan build) and
// asks LeakSanitizer for a recoverable leak check after each destruction.
// argv[1] = number of Lexicons; argv[2] = seed
#include "zoo.h"
#include <sanitizer/lsan_interface.h>
#include <cstdio>
#include <cstdlib>
#include <sstream>
#include <random>
#include <vector>

using namespace ipr;

static void construction_program(iprv::Zoo& z, unsigned seed, bool print)
{
   z.build();
   std::mt19937 rng(seed);
   auto& lex = z.lex;
   // unified nodes in every table, many of them, with repeats
   const ipr::Type* t = &lex.int_type();
   for (int i = 0; i < 200; ++i) {
      switch (rng() % 8) {
      case 0: t = &lex.get_pointer(*t); break;
      case 1: t = &lex.get_reference(lex.int_type()); break;
      case 2: t = &lex.get_qualified(ipr::Qualifiers(1 + rng() % 7), *t); break;
      case 3: { impl::Warehouse<ipr::Type> w; w.push_back(*t); w.push_back(lex.bool_type()); t = &lex.get_function(lex.get_product(w), *t); break; }
      case 4: { std::u8string s = u8"name"; s += char8_t('a' + rng() % 26); lex.get_identifier(s); lex.get_operator(s); break; }
      case 5: lex.get_literal(*t, u8"42"); break;
      case 6: lex.get_symbol(lex.get_identifier(u8"s"), *t); break;
      case 7: { std::u8string big(size_t(1) << (rng() % 18), u8'x'); big += char8_t('a' + rng() % 26); lex.get_string(big); break; }
      }
   }
   // declarations in scopes (overload sets, decl sets)
   auto& greg = *z.greg;
   for (int i = 0; i < 40; ++i) {
      std::u8string s = u8"v"; s += char8_t('a' + i % 7);
      greg.declare_var(lex.get_identifier(s), i % 3 ? lex.int_type() : lex.bool_type());
   }
   impl::General_substitution* gs = lex.make_general_substitution();
   (void) gs;
   // the string arena: enough text to roll over several 1 MiB pools in one life, words around the size at which a word gets
   // a pool of its own, and spellings that come from buffers which die right after the call
   for (int i = 0; i < 45; ++i) {
      std::u8string w(60000 + rng() % 9000, char8_t('a' + i % 26));
      w += char8_t('0' + i % 10);
      lex.get_string(w);
   }
   static const std::size_t edge[] = { 1048560, 1048568, 1048569, 1048572, 1048575, 1048576, 1048577, 1048584 };
   {
      std::u8string w(edge[seed % 8], u8'e');
      const ipr::String& s = lex.get_string(w);
      if (s.characters().size() != w.size() or s.characters().back() != u8'e') std::printf("edge-word-damaged length=%zu\n", w.size());
   }
   std::vector<const ipr::Identifier*> transient;
   for (int i = 0; i < 30; ++i) {
      std::u8string* w = new std::u8string(u8"transient_name_");
      *w += char8_t('a' + i % 26); *w += char8_t('a' + (i / 26) % 26);
      transient.push_back(&lex.get_identifier(*w));
      delete w;                                           // the spelling's storage is gone; the node must own its characters
   }
   for (auto id : transient) if (id->string().size() != 17 or id->string().characters()[0] != u8't') std::printf("transient-name-damaged\n");
   // every unit names its global namespace with a node of ITS OWN lexicon (read it: a node of a dead lexicon is dead storage)
   if (auto id = util::view<ipr::Identifier>(z.unit.global_namespace().name())) {
      if (id->string().size() != 0) std::printf("global-namespace-named\n");
      if (id != &lex.get_identifier(u8"")) std::printf("global-namespace-name-foreign\n");
   }
   else std::printf("global-namespace-name-not-an-identifier\n");
   if (print) {
      std::ostringstream os;
      ipr::Printer pp { lex, os };
      pp << z.unit;
   }
}

int main(int argc, char** argv)
{
   int n = argc > 1 ? std::atoi(argv[1]) : 10;
   unsigned seed = argc > 2 ? unsigned(std::atoi(argv[2])) : 1;
   int leaks = 0;
   for (int i = 0; i < n; ++i) {
      {
         auto z = std::make_unique<iprv::Zoo>();
         try { construction_program(*z, seed + i, i % 4 == 0); }
         catch (const std::exception& e) { std::printf("iteration=%d exception=%s\n", i, e.what()); }
         // destruction in the order the language prescribes: members of Zoo in reverse
      }
      int r = __lsan_do_recoverable_leak_check();
      if (r) ++leaks;
      std::printf("iteration=%d leak_check=%d\n", i, r);
      std::fflush(stdout);
      if (leaks >= 2) break;
   }
   // one Lexicon whose unification tables are filled in monotone key order (identifiers by ascending spelling, pointer types over
   // operands of ascending address): the trees become as deep as red-black trees get (2*log2 n), which is what any fixed-size
   // scratch storage of the clean-up code must survive
   long big = argc > 3 ? std::atol(argv[3]) : 0;
   if (big > 0) {
      {
         auto lex = std::make_unique<ipr::impl::Lexicon>();
         char buf[32];
         const ipr::Identifier* first = nullptr;
         for (long i = 0; i < big; ++i) {
            int len = std::snprintf(buf, sizeof buf, "k%09ld", i);
            auto& id = lex->get_identifier(ipr::util::word_view(reinterpret_cast<const char8_t*>(buf), std::size_t(len)));
            if (i == 0) first = &id;
         }
         const ipr::Type* t = &lex->int_type();
         for (long i = 0; i < big; ++i) t = &lex->get_pointer(*t);
         bool again = &lex->get_identifier(u8"k000000000") == first;
         std::printf("big-tables entries=%ld first-identifier-unified=%d\n", big, int(again));
         std::fflush(stdout);
      }
      int r = __lsan_do_recoverable_leak_check();
      if (r) ++leaks;
      std::printf("iteration=big leak_check=%d\n", r);
      std::fflush(stdout);
   }
   std::printf("lexicons=%d leaking_iterations=%d\n", n, leaks);
   return 0;
}
