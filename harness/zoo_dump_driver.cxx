// zoo_dump_driver.cxx — every accessor of every node of the zoo (at least one node of each of the
// node categories, built through factories, documented members and constants), read through the
// node's OWN interface class (found by double dispatch).  Used by C09 (types) and C14 (refusals).
//   stdout: Z <label> :: <accessor=value ...>
#include "zoo_dump.h"
#include "zoo.h"

using namespace iprv;

int main()
{
   Pools w;                     // registers the names of the library's constants
   Zoo zoo;
   zoo.build();
   for (auto& e : zoo.nodes) {
      Dump_visitor v;
      std::string d = guarded([&] { self_ptr() = ident(*e.node); e.node->accept(v); self_ptr() = nullptr; return v.out; });
      std::string l = e.label;
      for (auto& c : l) if (c == ' ') c = '_';
      std::printf("Z %s :: %s\n", l.c_str(), d.c_str());
   }
   return 0;
}
