// fsweep_driver_part.cxx — one slice (PART of NPARTS) of the generated factory dispatcher.
#include "fsweep_calls.h"
#define IPRV_STR2(x) #x
#define IPRV_STR(x) IPRV_STR2(x)
#define IPRV_CAT2(a, b) a##b
#define IPRV_CAT(a, b) IPRV_CAT2(a, b)

bool IPRV_CAT(dispatch_part_, PART)(Pools& w, const std::string& key, const std::vector<long>& ix)
{
#include IPRV_STR(IPRV_CAT(fsweep_calls_, PART).inc)
   return false;
}
