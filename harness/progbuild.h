// progbuild.h — builds a program of the printable fragment from an S-expression, in one of two ways:
//   mode A: operands built left to right, nothing else allocated;
//   mode B: operands built right to left, with unrelated allocations (phantoms, pointer types, literals, identifiers,
//           classes, whole throw-away scopes) interleaved — same graph up to isomorphism, different addresses and
//           different positions in every unification table.
#ifndef IPRV_PROGBUILD_H
#define IPRV_PROGBUILD_H
#include <ipr/impl>
#include <ipr/io>
#include <ipr/traversal>
#include <map>
#include <memory>
#include <stdexcept>
#include <string>
#include <vector>

namespace iprv {
using namespace ipr;

struct Sx {
   std::string atom;
   std::vector<Sx> kids;
   unsigned id = 0;            // position in the text (pre-order): source locations are derived from it, not from creation order
   bool is_atom() const { return kids.empty() and not atom.empty(); }
   const std::string& head() const { static std::string none; return kids.empty() ? none : kids[0].atom; }
   std::size_t n() const { return kids.size(); }
   const Sx& operator[](std::size_t i) const { if (i >= kids.size()) throw std::runtime_error("sx: missing operand of " + head()); return kids[i]; }
};

inline Sx parse_sx(const std::string& s, std::size_t& i)
{
   while (i < s.size() and std::isspace((unsigned char) s[i])) ++i;
   Sx r;
   r.id = unsigned(i);
   if (i < s.size() and s[i] == '(') {
      ++i;
      for (;;) {
         while (i < s.size() and std::isspace((unsigned char) s[i])) ++i;
         if (i >= s.size()) throw std::runtime_error("sx: unbalanced");
         if (s[i] == ')') { ++i; break; }
         r.kids.push_back(parse_sx(s, i));
      }
      if (r.kids.empty()) r.atom = "()";
      return r;
   }
   while (i < s.size() and not std::isspace((unsigned char) s[i]) and s[i] != '(' and s[i] != ')') r.atom += s[i++];
   return r;
}

struct Builder {
   impl::Lexicon lex;
   impl::Translation_unit unit { lex };
   bool noisy;                 // mode B
   unsigned long long rng;
   std::vector<std::unique_ptr<impl::Translation_unit>> junk_units;

   explicit Builder(bool b, unsigned long long seed) : noisy(b), rng(seed * 2654435761ULL + 12345) { if (noisy) for (int i = 0; i < 40; ++i) noise(); }

   unsigned long long next() { rng = rng * 6364136223846793005ULL + 1442695040888963407ULL; return rng >> 33; }

   // allocations that have nothing to do with the program
   void noise()
   {
      if (not noisy) return;
      switch (next() % 9) {
      case 0: lex.make_phantom(); break;
      case 1: lex.get_pointer(lex.get_pointer(lex.get_pointer(lex.char_type()))); break;
      case 2: { std::u8string s = u8"zz"; s += char8_t('a' + next() % 26); s += char8_t('a' + next() % 26); lex.get_identifier(s); } break;
      case 3: { std::u8string s = u8"9"; s += char8_t('0' + next() % 10); lex.make_literal(lex.long_type(), s); } break;
      case 4: lex.make_class(*unit.global_region()); break;      // a class object that is never declared
      case 5: lex.get_qualified(ipr::Qualifiers(1 + next() % 3), lex.get_pointer(lex.double_type())); break;
      case 6: { junk_units.push_back(std::make_unique<impl::Translation_unit>(lex));
                junk_units.back()->global_region()->declare_var(lex.get_identifier(u8"junk"), lex.int_type()); } break;
      case 7: lex.get_reference(lex.get_array(lex.short_type(), *lex.make_literal(lex.int_type(), u8"77"))); break;
      default: lex.make_expr_list(); break;
      }
   }

   static std::u8string u8(const std::string& s) { return std::u8string(s.begin(), s.end()); }
   static std::string unhex(const std::string& h)
   {
      std::string o;
      if (h == "-") return o;
      for (std::size_t i = 0; i + 1 < h.size(); i += 2) o += char(std::stoi(h.substr(i, 2), nullptr, 16));
      return o;
   }

   unsigned located = 0;       // how many statements were given a location with a file
   ipr::Source_location locus(const Sx& x)
   {
      unsigned k = x.id;
      if (k % 5 != 0) ++located;
      // some statements carry no location (file 0), some no column
      if (k % 5 == 0) return { };
      // one location in seven has coordinates at the width boundaries of its 32-bit fields (generated sources, #line directives)
      if (k % 7 == 3) {
         const std::uint32_t big[] = { 999999999u, 1000000000u, 2147483647u, 2147483648u, 4294967295u };
         return { ipr::Line_number{ big[k % 5] - (k / 7) % 1000000u }, ipr::Column_number{ big[(k / 3) % 5] }, ipr::File_index{ big[(k / 2) % 5] } };   // distinct for distinct k
      }
      return { ipr::Line_number{ 10 + k }, ipr::Column_number{ k % 3 == 0 ? 0 : 1 + k % 60 }, ipr::File_index{ 1 + k % 4 } };
   }

   // operands, in the order of the mode
   template<class F> void each_operand(std::size_t n, F f)
   {
      if (noisy) { for (std::size_t i = n; i-- > 0;) { noise(); f(i); } noise(); }
      else for (std::size_t i = 0; i < n; ++i) f(i);
   }

   const ipr::Type& type(const Sx& x)
   {
      if (x.is_atom()) {
         const auto& a = x.atom;
         if (a == "int") return lex.int_type(); if (a == "bool") return lex.bool_type(); if (a == "char") return lex.char_type();
         if (a == "void") return lex.void_type(); if (a == "double") return lex.double_type(); if (a == "long") return lex.long_type();
         if (a == "uint") return lex.uint_type(); if (a == "short") return lex.short_type(); if (a == "float") return lex.float_type();
         if (a == "typename") return lex.typename_type(); if (a == "ellipsis") return lex.ellipsis_type();
         throw std::runtime_error("type atom " + a);
      }
      const auto& h = x.head();
      if (h == "named") return lex.get_as_type(lex.get_identifier(u8(x[1].atom)));
      if (h == "decltype") return lex.get_decltype(expr(x[1]));
      if (h == "astype") return lex.get_as_type(expr(x[1]));
      if (h == "array") { const ipr::Type* t = nullptr; const ipr::Expr* e = nullptr;
         each_operand(2, [&](std::size_t i) { if (i == 0) t = &type(x[1]); else e = &expr(x[2]); });
         return lex.get_array(*t, *e); }
      if (h == "fn" or h == "product" or h == "sum") {
         std::vector<const ipr::Type*> ts(x.n() - 1);
         each_operand(ts.size(), [&](std::size_t i) { ts[i] = &type(x[i + 1]); });
         impl::Warehouse<ipr::Type> w;
         for (std::size_t i = (h == "fn" ? 1 : 0); i < ts.size(); ++i) w.push_back(*ts[i]);
         if (h == "product") return lex.get_product(w);
         if (h == "sum") return lex.get_sum(w);
         return lex.get_function(lex.get_product(w), *ts[0]);
      }
      if (h == "fnx") {
         // (fnx RET THROWS PARAM...): a function type with an explicit exception specification
         std::vector<const ipr::Type*> ts(x.n() - 2);
         const ipr::Expr* th = nullptr;
         each_operand(ts.size() + 1, [&](std::size_t i) { if (i == 1) th = &expr(x[2]); else ts[i == 0 ? 0 : i - 1] = &type(x[i == 0 ? 1 : i + 1]); });
         impl::Warehouse<ipr::Type> w;
         for (std::size_t i = 1; i < ts.size(); ++i) w.push_back(*ts[i]);
         return lex.get_function(lex.get_product(w), *ts[0], *th);
      }
      if (h == "ptm") { const ipr::Type* a = nullptr; const ipr::Type* b = nullptr;
         each_operand(2, [&](std::size_t i) { (i == 0 ? a : b) = &type(x[i + 1]); });
         return lex.get_ptr_to_member(*a, *b); }
      const ipr::Type& t = type(x[1]);
      noise();
      if (h == "ptr") return lex.get_pointer(t);
      if (h == "ref") return lex.get_reference(t);
      if (h == "rref") return lex.get_rvalue_reference(t);
      if (h == "const") return lex.get_qualified(lex.const_qualifier(), t);
      if (h == "volatile") return lex.get_qualified(lex.volatile_qualifier(), t);
      if (h == "cv") return lex.get_qualified(lex.const_qualifier() | lex.volatile_qualifier(), t);
      throw std::runtime_error("type form " + h);
   }

   const ipr::Expr& expr(const Sx& x)
   {
      if (x.is_atom()) {
         if (x.atom == "true") return lex.true_value(); if (x.atom == "false") return lex.false_value();
         if (x.atom == "nullptr") return lex.nullptr_value();
         throw std::runtime_error("expr atom " + x.atom);
      }
      const auto& h = x.head();
      noise();
      if (h == "lit") return *lex.make_literal(type(x[1]), u8(unhex(x[2].atom)));
      if (h == "id") return *lex.make_id_expr(lex.get_identifier(u8(x[1].atom)), { &type(x[2]) });
      if (h == "idop") return *lex.make_id_expr(lex.get_operator(u8(unhex(x[1].atom))), { &type(x[2]) });
      if (h == "idconv") return *lex.make_id_expr(lex.get_conversion(type(x[1])), { &type(x[1]) });
      if (h == "idctor") return *lex.make_id_expr(lex.get_ctor_name(type(x[1])), { &type(x[1]) });
      if (h == "iddtor") return *lex.make_id_expr(lex.get_dtor_name(type(x[1])), { &type(x[1]) });
      if (h == "idsuffix") return *lex.make_id_expr(lex.get_suffix(lex.get_identifier(u8(x[1].atom))), { &type(x[2]) });
      if (h == "label") return *lex.make_label(lex.get_identifier(u8(x[1].atom)));
      if (h == "tid") {
         // (tid E E...): the printer can print a template-id whose template-name is a scope-ref
         std::vector<const ipr::Expr*> es(x.n() - 1);
         each_operand(es.size(), [&](std::size_t i) { es[i] = &expr(x[i + 1]); });
         auto* l = lex.make_expr_list(); for (std::size_t i = 1; i < es.size(); ++i) l->push_back(es[i]);
         return *lex.make_id_expr(lex.get_template_id(*es[0], *l), { &lex.int_type() }); }
      if (h == "new") { const ipr::Type* t = nullptr; const ipr::Expr* e = nullptr;
         each_operand(2, [&](std::size_t i) { if (i == 0) t = &type(x[1]); else e = &expr(x[2]); });
         return *lex.make_new({ }, *lex.make_construction(*t, *lex.make_enclosure(ipr::Delimiter::Paren, *e))); }
      if (h == "sym") return lex.get_symbol(lex.get_identifier(u8(x[1].atom)), type(x[2]));
      if (h == "this") return lex.get_this(type(x[1]));
      if (h == "type") return type(x[1]);
      if (h == "encl") { auto k = ipr::Delimiter(std::stoi(x[1].atom)); return *lex.make_enclosure(k, expr(x[2])); }
      if (h == "list") {
         std::vector<const ipr::Expr*> es(x.n() - 1);
         each_operand(es.size(), [&](std::size_t i) { es[i] = &expr(x[i + 1]); });
         auto* l = lex.make_expr_list(); for (auto e : es) l->push_back(e); return *l; }
      if (h == "call") {
         std::vector<const ipr::Expr*> es(x.n() - 1);
         each_operand(es.size(), [&](std::size_t i) { es[i] = &expr(x[i + 1]); });
         auto* l = lex.make_expr_list(); for (std::size_t i = 1; i < es.size(); ++i) l->push_back(es[i]);
         return *lex.make_call(*es[0], *l); }
      if (h == "cond") { const ipr::Expr* e[3];
         each_operand(3, [&](std::size_t i) { e[i] = &expr(x[i + 1]); });
         return *lex.make_conditional(*e[0], *e[1], *e[2]); }
      if (h == "cast") { const ipr::Type* t = nullptr; const ipr::Expr* e = nullptr;
         each_operand(2, [&](std::size_t i) { if (i == 0) t = &type(x[2]); else e = &expr(x[3]); });
         const auto& k = x[1].atom;
         if (k == "c") return *lex.make_cast(*t, *e); if (k == "const") return *lex.make_const_cast(*t, *e);
         if (k == "dyn") return *lex.make_dynamic_cast(*t, *e); if (k == "reint") return *lex.make_reinterpret_cast(*t, *e);
         return *lex.make_static_cast(*t, *e); }
      if (h == "construct") { const ipr::Type* t = nullptr; const ipr::Expr* e = nullptr;
         each_operand(2, [&](std::size_t i) { if (i == 0) t = &type(x[1]); else e = &expr(x[2]); });
         return *lex.make_construction(*t, *lex.make_enclosure(ipr::Delimiter::Paren, *e)); }
#define UN(NAME, F) if (h == NAME) return *lex.F(expr(x[1]));
      UN("address", make_address) UN("complement", make_complement) UN("deref", make_deref) UN("not", make_not)
      UN("postinc", make_post_increment) UN("postdec", make_post_decrement) UN("preinc", make_pre_increment)
      UN("predec", make_pre_decrement) UN("throw", make_throw) UN("neg", make_unary_minus) UN("pos", make_unary_plus)
      UN("sizeof", make_sizeof) UN("typeid", make_typeid) UN("argsn", make_args_cardinality) UN("noexcept", make_noexcept)
      UN("delete", make_delete) UN("adelete", make_array_delete)
#undef UN
#define BIN(NAME, F) if (h == NAME) { const ipr::Expr* e[2]; each_operand(2, [&](std::size_t i) { e[i] = &expr(x[i + 1]); }); return *lex.F(*e[0], *e[1]); }
      BIN("and", make_and) BIN("arrayref", make_array_ref) BIN("arrow", make_arrow) BIN("arrowstar", make_arrow_star)
      BIN("assign", make_assign) BIN("bitand", make_bitand) BIN("bitandeq", make_bitand_assign) BIN("bitor", make_bitor)
      BIN("bitoreq", make_bitor_assign) BIN("bitxor", make_bitxor) BIN("bitxoreq", make_bitxor_assign) BIN("comma", make_comma)
      BIN("div", make_div) BIN("diveq", make_div_assign) BIN("dot", make_dot) BIN("dotstar", make_dot_star) BIN("eq", make_equal)
      BIN("gt", make_greater) BIN("ge", make_greater_equal) BIN("lt", make_less) BIN("le", make_less_equal) BIN("shl", make_lshift)
      BIN("shleq", make_lshift_assign) BIN("sub", make_minus) BIN("subeq", make_minus_assign) BIN("mod", make_modulo)
      BIN("modeq", make_modulo_assign) BIN("mul", make_mul) BIN("muleq", make_mul_assign) BIN("ne", make_not_equal) BIN("or", make_or)
      BIN("add", make_plus) BIN("addeq", make_plus_assign) BIN("scope", make_scope_ref) BIN("shr", make_rshift)
      BIN("shreq", make_rshift_assign) BIN("member_init", make_member_init)
#undef BIN
      throw std::runtime_error("expr form " + h);
   }

   const ipr::Stmt& stmt(const Sx& x, const ipr::Region& reg, impl::Region* declreg)
   {
      const auto& h = x.head();
      noise();
      if (h == "expr") { auto* s = lex.make_expr_stmt(expr(x[1])); s->src_locus = locus(x); return *s; }
      if (h == "return") { auto* s = lex.make_return(expr(x[1])); s->src_locus = locus(x); return *s; }
      if (h == "goto") { auto* s = lex.make_goto(expr(x[1])); s->src_locus = locus(x); return *s; }
      if (h == "break") { auto* s = lex.make_break(); s->src_locus = locus(x); return *s; }
      if (h == "continue") { auto* s = lex.make_continue(); s->src_locus = locus(x); return *s; }
      if (h == "if") { const ipr::Expr* c = nullptr; const ipr::Stmt* s1 = nullptr;
         each_operand(2, [&](std::size_t i) { if (i == 0) c = &expr(x[1]); else s1 = &stmt(x[2], reg, declreg); });
         auto* s = lex.make_if(*c, *s1); s->src_locus = locus(x); return *s; }
      if (h == "ife") { const ipr::Expr* c = nullptr; const ipr::Stmt* s1 = nullptr; const ipr::Stmt* s2 = nullptr;
         each_operand(3, [&](std::size_t i) { if (i == 0) c = &expr(x[1]); else if (i == 1) s1 = &stmt(x[2], reg, declreg); else s2 = &stmt(x[3], reg, declreg); });
         auto* s = lex.make_if(*c, *s1, *s2); s->src_locus = locus(x); return *s; }
      if (h == "while" or h == "do" or h == "switch") { const ipr::Expr* c = nullptr; const ipr::Stmt* b = nullptr;
         each_operand(2, [&](std::size_t i) { if (i == 0) c = &expr(x[1]); else b = &stmt(x[2], reg, declreg); });
         if (h == "while") { auto* s = lex.make_while(); s->control = c; s->stmt = b; s->src_locus = locus(x); return *s; }
         if (h == "do") { auto* s = lex.make_do(); s->control = c; s->stmt = b; s->src_locus = locus(x); return *s; }
         auto* s = lex.make_switch(); s->control = c; s->stmt = b; s->src_locus = locus(x); return *s; }
      if (h == "for") { const ipr::Expr* e[3]; const ipr::Stmt* b = nullptr;
         each_operand(4, [&](std::size_t i) { if (i < 3) e[i] = &expr(x[i + 1]); else b = &stmt(x[4], reg, declreg); });
         auto* s = lex.make_for(); s->init = e[0]; s->cond = e[1]; s->inc = e[2]; s->stmt = b; s->src_locus = locus(x); return *s; }
      if (h == "forin") {
         // (forin (var NAME T) E S): the loop variable is declared in the enclosing declaration region
         if (not declreg) throw std::runtime_error("for-in outside a block");
         const ipr::Decl* v = nullptr; const ipr::Expr* sq = nullptr; const ipr::Stmt* b = nullptr;
         v = &decl(x[1], *declreg);
         each_operand(2, [&](std::size_t i) { if (i == 0) sq = &expr(x[2]); else b = &stmt(x[3], reg, declreg); });
         auto* s = lex.make_for_in(); s->var = util::view<ipr::Var>(*v); s->seq = sq; s->stmt = b; s->src_locus = locus(x); return *s; }
      if (h == "labeled") { const ipr::Expr* l = nullptr; const ipr::Stmt* b = nullptr;
         each_operand(2, [&](std::size_t i) { if (i == 0) l = &expr(x[1]); else b = &stmt(x[2], reg, declreg); });
         auto* s = lex.make_labeled_stmt(*l, *b); s->src_locus = locus(x); return *s; }
      if (h == "block" or h == "try") {
         // (block S...)   (try (S...) (catch NAME T S...)...)
         auto* b = lex.make_block(reg); b->src_locus = locus(x);
         const Sx& body = h == "block" ? x : x[1];
         for (std::size_t i = (h == "block" ? 1 : 0); i < body.n(); ++i) b->add_stmt(stmt(body[i], b->lexical_region, &b->lexical_region));   // statement order is program order
         if (h == "try")
            for (std::size_t i = 2; i < x.n(); ++i) {
               const Sx& c = x[i];
               auto* hd = b->new_handler(lex.get_identifier(u8(c[1].atom)), type(c[2]));
               hd->src_locus = locus(c);
               for (std::size_t j = 3; j < c.n(); ++j) hd->body().add_stmt(stmt(c[j], hd->body().lexical_region, &hd->body().lexical_region));
            }
         return *b; }
      if (h == "decl") { if (not declreg) throw std::runtime_error("declaration statement outside a block"); return decl(x[1], *declreg); }
      throw std::runtime_error("stmt form " + h);
   }

   // declarations are entered in program order (declaration order is part of the program); what they are made of is
   // built in the order of the mode
   const ipr::Decl& decl(const Sx& x, impl::Region& reg)
   {
      const auto& h = x.head();
      noise();
      auto& name = lex.get_identifier(u8(x[1].atom));
      if (h == "var") {
         const ipr::Type* t = nullptr; const ipr::Expr* init = nullptr;
         each_operand(x.n() > 3 ? 2 : 1, [&](std::size_t i) { if (i == 0) t = &type(x[2]); else init = &expr(x[3]); });
         auto* v = reg.declare_var(name, *t); v->lexreg = &reg; v->src_locus = locus(x);
         if (init) v->init = init;
         if (x.n() > 4) v->specifiers(ipr::Specifiers(std::stoul(x[4].atom)));
         return *v; }
      if (h == "field") { auto* f = reg.declare_field(name, type(x[2])); f->src_locus = locus(x); if (x.n() > 3) f->init = &expr(x[3]); return *f; }
      if (h == "bitfield") { const ipr::Type* t = nullptr; const ipr::Expr* e = nullptr;
         each_operand(2, [&](std::size_t i) { if (i == 0) t = &type(x[2]); else e = &expr(x[3]); });
         auto* f = reg.declare_bitfield(name, *t); f->length = e; f->src_locus = locus(x); return *f; }
      if (h == "alias") { auto* a = reg.scope.make_alias(name, expr(x[2])); a->src_locus = locus(x); return *a; }
      if (h == "class" or h == "union" or h == "namespace") {
         // (class NAME (bases T...) D...)
         impl::Typedecl* td = nullptr;
         if (h == "class") {
            auto* c = lex.make_class(reg); c->id = &name;
            td = reg.declare_type(name, lex.class_type()); td->lexreg = &reg; td->init = c; td->src_locus = locus(x);
            for (std::size_t i = 1; i < x[2].n(); ++i) c->declare_base(type(x[2][i]));
            for (std::size_t i = 3; i < x.n(); ++i) decl(x[i], c->body);
         }
         else if (h == "union") {
            auto* c = lex.make_union(reg); c->id = &name;
            td = reg.declare_type(name, lex.union_type()); td->lexreg = &reg; td->init = c; td->src_locus = locus(x);
            for (std::size_t i = 2; i < x.n(); ++i) decl(x[i], c->body);
         }
         else {
            auto* c = lex.make_namespace(reg); c->id = &name;
            td = reg.declare_type(name, lex.namespace_type()); td->lexreg = &reg; td->init = c; td->src_locus = locus(x);
            for (std::size_t i = 2; i < x.n(); ++i) decl(x[i], c->body);
         }
         return *td; }
      if (h == "enum") {
         // (enum NAME (NAME [E])...)
         auto* e = lex.make_enum(reg, ipr::Enum::Kind::Scoped); e->id = &name;
         auto* td = reg.declare_type(name, lex.enum_type()); td->lexreg = &reg; td->init = e; td->src_locus = locus(x);
         for (std::size_t i = 2; i < x.n(); ++i) {
            auto* m = e->add_member(lex.get_identifier(u8(x[i][0].atom)));
            if (x[i].n() > 1) m->init = &expr(x[i][1]);
         }
         return *td; }
      if (h == "fun") {
         // (fun NAME RET ((PNAME T)...) BODY|-)
         const Sx& ps = x[3];
         std::vector<const ipr::Type*> pts(ps.n());
         const ipr::Type* ret = nullptr;
         each_operand(ps.n() + 1, [&](std::size_t i) { if (i == 0) ret = &type(x[2]); else pts[i - 1] = &type(ps[i - 1][1]); });
         impl::Warehouse<ipr::Type> w; for (auto t : pts) w.push_back(*t);
         auto& fty = lex.get_function(lex.get_product(w), *ret);
         auto* f = reg.declare_fun(name, fty); f->lexreg = &reg; f->src_locus = locus(x);
         auto* m = lex.make_mapping(reg, Mapping_level{ 1 });
         for (std::size_t i = 0; i < ps.n(); ++i) m->param(lex.get_identifier(u8(ps[i][0].atom)), *pts[i]);
         m->typing = &fty;
         if (x.n() > 4 and not x[4].is_atom()) m->body = &stmt(x[4], m->parameters().region(), nullptr);
         else m->body = lex.make_phantom();
         f->data.emplace<1>(m);
         return *f; }
      throw std::runtime_error("decl form " + h);
   }

   void program(const Sx& x)
   {
      for (std::size_t i = 1; i < x.n(); ++i) { decl(x[i], *unit.global_region()); noise(); }
   }
};
}
#endif
