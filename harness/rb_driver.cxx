// rb_driver.cxx — drives ipr::util::rb_tree (both flavours) from insertion
// scripts and prints canonical observations (C08).
//
// stdin, one case per line:   <own|chain> <int|diff|addr|lex> [steps] k1 k2 ... [? probe1 probe2 ...]
//   int : integer keys, three-way comparator returning -1/0/1
//   diff: integer keys, comparator returning the (non-unit) difference
//   wide: 62-bit integer keys, comparator returning the difference as a long long (a total order whose
//         results do not fit an int)
//   addr: keys are indices of separately heap-allocated objects, compared by address
//   lex : keys are comma-separated integer vectors compared by
//         util::lexicographical_compare ("-" is the empty vector)
// stdout, one line per case (see print_case).
#include <ipr/utility>
#include <cstdio>
#include <cstdint>
#include <iostream>
#include <sstream>
#include <string>
#include <vector>
#include <map>
#include <memory>
#include <algorithm>
#include <functional>

using namespace ipr::util;

template<class Node, class PrintKey>
static void shape(const Node* n, PrintKey pk, std::string& out)
{
   if (n == nullptr) { out += '.'; return; }
   out += '(';
   out += const_cast<Node*>(n)->color == rb_tree::Color::Red ? 'R' : 'B';
   out += ' ';
   shape(const_cast<Node*>(n)->left(), pk, out);
   out += ' ';
   out += pk(*n);
   out += ' ';
   shape(const_cast<Node*>(n)->right(), pk, out);
   out += ')';
}

template<class Node>
static bool parents_ok(Node* n, Node* up)
{
   if (n == nullptr) return true;
   if (n->parent() != up) return false;
   return parents_ok(n->left(), n) and parents_ok(n->right(), n);
}

template<class Node>
static long count_nodes(Node* n)
{
   return n == nullptr ? 0 : 1 + count_nodes(n->left()) + count_nodes(n->right());
}

// Owning flavour probe.
template<class T>
struct OwnProbe : rb_tree::container<T> {
   using N = rb_tree::node<T>;
   N* top() const { return this->root; }
};

// Intrusive flavour.
template<class K>
struct CNode : rb_tree::link<CNode<K>> {
   K key;
   int serial;
};
template<class K>
struct ChainProbe : rb_tree::chain<CNode<K>> {
   CNode<K>* top() const { return this->root; }
};

struct Case {
   bool own = true;
   std::string cmp;
   bool steps = false;
   bool preblack = false;      // chain flavour: the caller's nodes arrive coloured black (reused nodes, zero-filled storage)
   std::vector<std::string> keys;
   std::vector<std::string> probes;
};

static std::vector<int> parse_vec(const std::string& s)
{
   std::vector<int> v;
   if (s == "-") return v;
   std::stringstream ss(s);
   std::string item;
   while (std::getline(ss, item, ',')) v.push_back(std::stoi(item));
   return v;
}

static std::string show_vec(const std::vector<int>& v)
{
   if (v.empty()) return "-";
   std::string s;
   for (size_t i = 0; i < v.size(); ++i) { if (i) s += ','; s += std::to_string(v[i]); }
   return s;
}

static int sgn3(long a, long b) { return a < b ? -1 : (b < a ? 1 : 0); }

template<class K, class Cmp, class Show>
static void run_case(const Case& c, const std::vector<K>& keys, const std::vector<K>& probes_absent,
                     Cmp cmp, Show show, const std::string& extra)
{
   std::string steps, ret, fresh, found, absent, final_shape;
   long size = 0, nodes = 0;
   bool pok = true;
   if (c.own) {
      OwnProbe<K> t;
      std::vector<K*> got;
      std::map<K*, size_t> index_of;     // element -> first step that returned it
      auto pk = [&](const rb_tree::node<K>& n) { return show(n.data); };
      for (size_t i = 0; i < keys.size(); ++i) {
         long before = t.size();
         K* p = t.insert(keys[i], cmp);
         got.push_back(p);
         size_t j = index_of.emplace(p, i).first->second;
         if (i) ret += ',';
         ret += std::to_string(j);
         fresh += (t.size() == before + 1) ? '1' : '0';
         if (keys.size() <= 4096 or (i & 1023) == 0) pok = pok and parents_ok(t.top(), (rb_tree::node<K>*) nullptr);   // whole-tree walks: after every step on small runs, every 1024th on long ones
         if (c.steps) { if (i) steps += '|'; shape(t.top(), pk, steps); }
      }
      for (size_t i = 0; i < keys.size(); ++i) {
         K* p = t.find(keys[i], cmp);
         // the element found must be the one insert returned for this key
         found += (p != nullptr and p == got[i]) ? '1' : (p != nullptr ? 'x' : '0');
      }
      for (auto& k : probes_absent)
         absent += t.find(k, cmp) != nullptr ? '1' : '0';
      shape(t.top(), pk, final_shape);
      size = t.size();
      nodes = count_nodes(t.top());
      pok = pok and parents_ok(t.top(), (rb_tree::node<K>*) nullptr);
   }
   else {
      ChainProbe<K> t;
      std::vector<std::unique_ptr<CNode<K>>> store;
      std::vector<CNode<K>*> first;      // first node inserted with an equal key
      std::map<K, CNode<K>*> first_of;
      auto ncmp = [&](const CNode<K>& a, const CNode<K>& b) { return cmp(a.key, b.key); };
      auto kcmp = [&](const CNode<K>& a, const K& b) { return cmp(a.key, b); };
      auto pk = [&](const CNode<K>& n) { return show(n.key); };
      for (size_t i = 0; i < keys.size(); ++i) {
         store.push_back(std::make_unique<CNode<K>>());
         store.back()->key = keys[i];
         store.back()->serial = int(i);
         if (c.preblack) store.back()->color = rb_tree::Color::Black;
         const bool walk = keys.size() <= 4096;                  // whole-tree walks after every step on small runs only
         long before = walk ? count_nodes(t.top()) : (t.find(keys[i], kcmp) == nullptr ? 0 : 1);
         CNode<K>* p = t.insert(store.back().get(), ncmp);
         if (i) ret += ',';
         ret += std::to_string(p->serial);
         fresh += walk ? ((count_nodes(t.top()) == before + 1) ? '1' : '0') : (before == 0 ? '1' : '0');
         if (walk or (i & 1023) == 0) pok = pok and parents_ok(t.top(), (CNode<K>*) nullptr);
         if (c.steps) { if (i) steps += '|'; shape(t.top(), pk, steps); }
         first.push_back(first_of.emplace(keys[i], store.back().get()).first->second);
      }
      for (size_t i = 0; i < keys.size(); ++i) {
         CNode<K>* p = t.find(keys[i], kcmp);
         found += (p != nullptr and p == first[i]) ? '1' : (p != nullptr ? 'x' : '0');
      }
      for (auto& k : probes_absent)
         absent += t.find(k, kcmp) != nullptr ? '1' : '0';
      size = t.size();
      if (c.preblack or keys.size() % 3 == 0) {
         // registering a node object that is ALREADY linked in this chain (an idempotent re-registration): the tree is left as it is
         std::string before; shape(t.top(), pk, before);
         long relinked = 0;
         for (size_t i = 0; i < store.size(); i += 1 + store.size() / 7) {
            if (first[i] != store[i].get()) continue;           // only objects that are in the tree
            CNode<K>* p = t.insert(store[i].get(), ncmp);
            if (p != store[i].get()) ++relinked;
         }
         std::string after; shape(t.top(), pk, after);
         if (before != after or relinked) { final_shape = "CHANGED-BY-RE-REGISTRATION:" + after; }
         pok = pok and parents_ok(t.top(), (CNode<K>*) nullptr);
      }
      if (final_shape.empty()) shape(t.top(), pk, final_shape);
      nodes = count_nodes(t.top());
   }
   std::printf("shape=%s size=%ld nodes=%ld parents=%s ret=%s fresh=%s found=%s probe=%s",
               final_shape.c_str(), size, nodes, pok ? "ok" : "BAD",
               ret.empty() ? "-" : ret.c_str(), fresh.empty() ? "-" : fresh.c_str(),
               found.empty() ? "-" : found.c_str(), absent.empty() ? "-" : absent.c_str());
   if (c.steps) std::printf(" steps=%s", steps.empty() ? "-" : steps.c_str());
   if (not extra.empty()) std::printf(" %s", extra.c_str());
   std::printf("\n");
}

// Bulk mode: long patterned runs validated here (one O(n) pass at the end) instead of through the printed shape.
template<class Node, class Key>
static bool bulk_valid(Node* n, Key key, long lo, long hi, int& black, int& height, std::string& why)
{
   if (n == nullptr) { black = 1; height = 0; return true; }
   const long k = key(*n);
   if (k <= lo or k >= hi) { why = "search order broken at " + std::to_string(k); return false; }
   if (n->color == rb_tree::Color::Red)
      for (auto c : { n->left(), n->right() })
         if (c != nullptr and c->color == rb_tree::Color::Red) { why = "red node " + std::to_string(k) + " has a red child"; return false; }
   for (auto c : { n->left(), n->right() })
      if (c != nullptr and c->parent() != n) { why = "parent link of a child of " + std::to_string(k); return false; }
   int bl = 0, br = 0, hl = 0, hr = 0;
   // the search goes left when comp(data, key) < 0: greater keys are on the left
   if (not bulk_valid(n->left(), key, k, hi, bl, hl, why) or not bulk_valid(n->right(), key, lo, k, br, hr, why)) return false;
   if (bl != br) { why = "black count differs below " + std::to_string(k); return false; }
   black = bl + (n->color == rb_tree::Color::Black ? 1 : 0);
   height = 1 + std::max(hl, hr);
   return true;
}

static void run_bulk(bool own, const std::string& pattern, long n)
{
   std::vector<long> keys;
   for (long i = 0; i < n; ++i)
      keys.push_back(2 * (pattern == "asc" ? i : pattern == "desc" ? n - 1 - i : pattern == "organ" ? ((i & 1) ? n - 1 - i / 2 : i / 2) : (i * 7919) % n));
   auto cmp = [](long a, long b) { return sgn3(a, b); };
   std::string why;
   int black = 0, height = 0;
   long size = 0, nodes = 0, missing = 0, ghosts = 0, wrong = 0;
   bool ok = true;
   if (own) {
      OwnProbe<long> t;
      std::vector<long*> got;
      for (long k : keys) got.push_back(t.insert(k, cmp));
      std::map<long, long*> first;
      for (size_t i = 0; i < keys.size(); ++i) {
         auto [it, fresh] = first.emplace(keys[i], got[i]);
         if (it->second != got[i] or *got[i] != keys[i]) ++wrong;
      }
      for (size_t i = 0; i < keys.size(); ++i) {
         long* p = t.find(keys[i], cmp);
         if (p == nullptr) ++missing; else if (p != first[keys[i]]) ++wrong;
         if (t.find(keys[i] + 1, cmp) != nullptr) ++ghosts;
      }
      if (t.find(-1L, cmp) != nullptr) ++ghosts;
      size = t.size();
      nodes = count_nodes(t.top());
      if (t.top() != nullptr and (t.top()->color != rb_tree::Color::Black or t.top()->parent() != nullptr)) { ok = false; why = "root is red or has a parent"; }
      ok = ok and bulk_valid(t.top(), [](const rb_tree::node<long>& x) { return x.data; }, -2, 2 * n + 2, black, height, why);
      if (size != long(first.size()) or nodes != size) { ok = false; why = "size " + std::to_string(size) + ", nodes " + std::to_string(nodes) + ", distinct keys " + std::to_string(first.size()); }
   }
   else {
      ChainProbe<long> t;
      std::vector<std::unique_ptr<CNode<long>>> store;
      auto ncmp = [&](const CNode<long>& a, const CNode<long>& b) { return cmp(a.key, b.key); };
      auto kcmp = [&](const CNode<long>& a, const long& b) { return cmp(a.key, b); };
      std::map<long, CNode<long>*> first;
      for (size_t i = 0; i < keys.size(); ++i) {
         store.push_back(std::make_unique<CNode<long>>());
         store.back()->key = keys[i];
         store.back()->serial = int(i);
         auto p = t.insert(store.back().get(), ncmp);
         first.emplace(keys[i], p);
      }
      for (size_t i = 0; i < keys.size(); ++i) {
         auto p = t.find(keys[i], kcmp);
         if (p == nullptr) ++missing; else if (p->key != keys[i]) ++wrong;
         if (t.find(keys[i] + 1, kcmp) != nullptr) ++ghosts;
      }
      size = t.size();
      nodes = count_nodes(t.top());
      if (t.top() != nullptr and (t.top()->color != rb_tree::Color::Black or t.top()->parent() != nullptr)) { ok = false; why = "root is red or has a parent"; }
      ok = ok and bulk_valid(t.top(), [](const CNode<long>& x) { return x.key; }, -2, 2 * n + 2, black, height, why);
      if (nodes != long(first.size())) { ok = false; why = "nodes " + std::to_string(nodes) + ", distinct keys " + std::to_string(first.size()); }
   }
   if (missing or ghosts or wrong) { ok = false; why = std::to_string(missing) + " inserted keys not found, " + std::to_string(ghosts) + " keys never inserted found, " + std::to_string(wrong) + " wrong elements"; }
   for (auto& ch : why) if (ch == ' ') ch = '_';
   std::printf("bulk=%s why=%s n=%ld size=%ld nodes=%ld height=%d\n", ok ? "ok" : "BAD", why.empty() ? "-" : why.c_str(), n, size, nodes, height);
}

int main()
{
   std::string line;
   while (std::getline(std::cin, line)) {
      if (line.empty() or line[0] == '#') continue;
      std::stringstream ss(line);
      Case c;
      std::string fl;
      ss >> fl >> c.cmp;
      if (fl == "bulk") {                  // bulk <own|chain> <asc|desc|organ|zig> <n>
         std::string pattern;
         long n = 0;
         ss >> pattern >> n;
         run_bulk(c.cmp == "own", pattern, n);
         continue;
      }
      c.own = (fl == "own");
      std::string tok;
      bool probing = false;
      while (ss >> tok) {
         if (tok == "steps") c.steps = true;
         else if (tok == "preblack") c.preblack = true;
         else if (tok == "?") probing = true;
         else (probing ? c.probes : c.keys).push_back(tok);
      }
      if (c.cmp == "int" or c.cmp == "diff" or c.cmp == "wide") {
         std::vector<long> keys;
         for (auto& k : c.keys) keys.push_back(std::stol(k));
         std::vector<long> absent;
         for (auto& k : c.probes) absent.push_back(std::stol(k));
         auto show = [](long k) { return std::to_string(k); };
         if (c.cmp == "int")
            run_case<long>(c, keys, absent, [](long a, long b) { return sgn3(a, b); }, show, "");
         else if (c.cmp == "wide")
            run_case<long>(c, keys, absent, [](long a, long b) -> long long { return static_cast<long long>(a) - b; }, show, "");
         else
            run_case<long>(c, keys, absent, [](long a, long b) { return int(a - b); }, show, "");
      }
      else if (c.cmp == "addr") {
         // keys and probes are indices into a pool of separately allocated objects
         int n = 0;
         std::vector<int> idx;
         for (auto& k : c.keys) { idx.push_back(std::stoi(k)); n = std::max(n, idx.back() + 1); }
         std::vector<int> pidx;
         for (auto& k : c.probes) { pidx.push_back(std::stoi(k)); n = std::max(n, pidx.back() + 1); }
         struct Obj { int index; char pad[24]; };
         std::vector<std::unique_ptr<Obj>> pool;
         std::vector<std::unique_ptr<char[]>> gaps;
         for (int i = 0; i < n; ++i) {
            // irregular gaps so that address order is not index order
            gaps.push_back(std::make_unique<char[]>(size_t(16 + 48 * ((i * 7) % 5))));
            pool.push_back(std::make_unique<Obj>());
            pool.back()->index = i;
         }
         std::vector<const Obj*> keys, absent;
         for (int i : idx) keys.push_back(pool[i].get());
         for (int i : pidx) absent.push_back(pool[i].get());
         // rank of each object's address among all objects
         std::vector<const Obj*> sorted;
         for (auto& p : pool) sorted.push_back(p.get());
         std::sort(sorted.begin(), sorted.end(), std::less<const Obj*>());
         std::string ranks = "ranks=";
         for (int i = 0; i < n; ++i) {
            auto r = std::find(sorted.begin(), sorted.end(), pool[i].get()) - sorted.begin();
            if (i) ranks += ',';
            ranks += std::to_string(r);
         }
         auto cmp = [](const Obj* a, const Obj* b) {
            constexpr std::less<> lt{};
            return lt(a, b) ? -1 : (lt(b, a) ? 1 : 0);
         };
         auto show = [](const Obj* o) { return std::to_string(o->index); };
         run_case<const Obj*>(c, keys, absent, cmp, show, ranks);
      }
      else if (c.cmp == "lex") {
         using V = std::vector<int>;
         std::vector<V> keys;
         for (auto& k : c.keys) keys.push_back(parse_vec(k));
         std::vector<V> absent;
         for (auto& k : c.probes) absent.push_back(parse_vec(k));
         auto cmp = [](const V& a, const V& b) {
            return lexicographical_compare()(a.begin(), a.end(), b.begin(), b.end(),
                                             [](int x, int y) { return sgn3(x, y); });
         };
         run_case<V>(c, keys, absent, cmp, show_vec, "");
      }
      else {
         std::printf("error=unknown-comparator\n");
      }
   }
   return 0;
}
