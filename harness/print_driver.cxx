// print_driver.cxx — the printer under observation (C17, C18).
//   print_driver zoo                 every zoo node offered to every printer entry point that accepts its static kind
//                                    (xpr_decl / xpr_stmt / xpr_type / xpr_expr), each in a child process with a bounded stack
//   print_driver lit                 stdin: hex spellings; prints a located declaration initialised with that literal, then a
//                                    second located declaration into the SAME stream
//   stdout, one line per attempt:
//     P <label> <entry> outcome=<ok|logic_error|exception:<type>|signal:<n>|exit:<n>> bytes=<hex> flags=<before>/<after>
//       fill=<b>/<a> width=<b>/<a> prec=<b>/<a> indent=<b>/<a> newline=<b>/<a>
#include "zoo.h"
#include "progbuild.h"
#include <functional>
#include <cstdio>
#include <cstring>
#include <iostream>
#include <sstream>
#include <string>
#include <typeinfo>
#include <sys/resource.h>
#include <sys/wait.h>
#include <unistd.h>

using namespace iprv;

static std::string hex(const std::string& s, std::size_t limit = 4096)
{
   static const char* d = "0123456789abcdef";
   std::string o;
   for (std::size_t i = 0; i < s.size() and i < limit; ++i) { o += d[(unsigned char) s[i] >> 4]; o += d[(unsigned char) s[i] & 15]; }
   if (s.size() > limit) o += "...";
   return o.empty() ? "-" : o;
}

static std::string unhex(const std::string& h)
{
   std::string o;
   if (h == "-") return o;
   for (std::size_t i = 0; i + 1 < h.size(); i += 2) o += char(std::stoi(h.substr(i, 2), nullptr, 16));
   return o;
}

struct Snapshot {
   std::ios::fmtflags flags; char fill; std::streamsize width, prec; int indent; bool nl;
   Snapshot(std::ostream& os, ipr::Printer& pp) : flags(os.flags()), fill(os.fill()), width(os.width()), prec(os.precision()), indent(pp.indent()), nl(pp.needs_newline()) { }
};

template<class F> static void attempt(const std::string& label, const char* entry, std::ostringstream& os, ipr::Printer& pp, F f)
{
   Snapshot b(os, pp);
   std::string outcome = "ok";
   try { f(); }
   catch (const std::logic_error&) { outcome = "logic_error"; }
   catch (const std::exception& e) { outcome = std::string("exception:") + typeid(e).name(); }
   Snapshot a(os, pp);
   std::printf("P %s %s outcome=%s bytes=%s flags=%lx/%lx fill=%d/%d width=%ld/%ld prec=%ld/%ld indent=%d/%d newline=%d/%d\n",
               label.c_str(), entry, outcome.c_str(), hex(os.str()).c_str(), (unsigned long) b.flags, (unsigned long) a.flags,
               int(b.fill), int(a.fill), long(b.width), long(a.width), long(b.prec), long(a.prec), b.indent, a.indent, int(b.nl), int(a.nl));
   std::fflush(stdout);
}

static int children_timed_out = 0;      // prints that did not finish within the child's time limit
static void in_child(const std::string& label, const char* entry, const std::function<void()>& body)
{
   std::fflush(stdout);
   pid_t pid = fork();
   if (pid == 0) {
      struct rlimit rl { 16u << 20, 16u << 20 };
      setrlimit(RLIMIT_STACK, &rl);
      alarm(20);
      body();
      std::fflush(stdout);
      _exit(0);
   }
   int st = 0;
   waitpid(pid, &st, 0);
   if (WIFSIGNALED(st) and WTERMSIG(st) == SIGALRM) ++children_timed_out;
   if (WIFSIGNALED(st)) std::printf("P %s %s outcome=signal:%d bytes=- \n", label.c_str(), entry, WTERMSIG(st));
   else if (WEXITSTATUS(st) != 0) std::printf("P %s %s outcome=exit:%d bytes=- \n", label.c_str(), entry, WEXITSTATUS(st));
   std::fflush(stdout);
}

static int zoo_mode()
{
   Zoo zoo;
   zoo.build();
   for (auto& e : zoo.nodes) {
      std::string l = e.label;
      for (auto& c : l) if (c == ' ') c = '_';
      const ipr::Node& n = *e.node;
      auto* ex = dynamic_cast<const ipr::Expr*>(&n);
      auto* ty = dynamic_cast<const ipr::Type*>(&n);
      if (not ex) { std::printf("P %s none outcome=not-an-expression bytes=- \n", l.c_str()); continue; }
      for (bool locs : { false, true }) {
         std::string sfx = locs ? "+loc" : "";
         in_child(l, ("decl" + sfx).c_str(), [&] { std::ostringstream os; ipr::Printer pp(zoo.lex, os); pp.print_locations = locs;
            attempt(l, ("decl" + sfx).c_str(), os, pp, [&] { pp << ipr::xpr_decl(*ex); }); });
         in_child(l, ("stmt" + sfx).c_str(), [&] { std::ostringstream os; ipr::Printer pp(zoo.lex, os); pp.print_locations = locs;
            attempt(l, ("stmt" + sfx).c_str(), os, pp, [&] { pp << ipr::xpr_stmt(*ex); }); });
         in_child(l, ("expr" + sfx).c_str(), [&] { std::ostringstream os; ipr::Printer pp(zoo.lex, os); pp.print_locations = locs;
            attempt(l, ("expr" + sfx).c_str(), os, pp, [&] { pp << ipr::xpr_expr(*ex); }); });
         if (ty)
            in_child(l, ("type" + sfx).c_str(), [&] { std::ostringstream os; ipr::Printer pp(zoo.lex, os); pp.print_locations = locs;
               attempt(l, ("type" + sfx).c_str(), os, pp, [&] { pp << ipr::xpr_type(*ty); }); });
      }
   }
   in_child("translation_unit", "unit", [&] { std::ostringstream os; ipr::Printer pp(zoo.lex, os);
      attempt("translation_unit", "unit", os, pp, [&] { pp << zoo.unit; }); });
   return 0;
}

static int lit_mode()
{
   std::string line;
   while (std::getline(std::cin, line)) {
      if (line.empty()) continue;
      std::string sp = unhex(line);
      in_child("lit:" + line, "decl", [&] {
         impl::Lexicon lex; impl::Translation_unit unit(lex);
         auto& greg = *unit.global_region();
         std::u8string w(sp.begin(), sp.end());
         auto* v = greg.declare_var(lex.get_identifier(u8"v"), lex.int_type());
         v->init = lex.make_literal(lex.int_type(), w);
         v->src_locus = ipr::Source_location{ ipr::Line_number{ 10 }, ipr::Column_number{ 20 }, ipr::File_index{ 9 } };
         auto* v2 = greg.declare_var(lex.get_identifier(u8"w"), lex.int_type());
         v2->src_locus = ipr::Source_location{ ipr::Line_number{ 64 }, ipr::Column_number{ 8 }, ipr::File_index{ 17 } };
         std::ostringstream os; ipr::Printer pp(lex, os); pp.print_locations = true;
         attempt("lit:" + line, "decl", os, pp, [&] { pp << ipr::xpr_decl(*v, true); pp << ipr::xpr_decl(*v2, true); });
      });
   }
   return 0;
}

// prog mode: stdin one S-expression program per line: (program D...)
// stdout per program:  G <n> A=<hex> A2=<hex> Aloc=<hex> B=<hex> Bloc=<hex> A3=<hex> state=<ok|...>
//   A: built in order, printed;  A2: printed again with a fresh printer;  A3: printed a third time after the located print;
//   B: same program built right-to-left amid unrelated allocations.  A = A2 = A3 = B and Aloc = Bloc are C17's claims.
// preset: how the caller left the stream before handing it to the printer (0 = as constructed)
static std::string print_unit(Builder& b, bool locs, std::string& state, int preset = 0)
{
   std::ostringstream os; ipr::Printer pp(b.lex, os); pp.print_locations = locs;
   const char* preset_name[] = { "", "hex+showbase", "oct", "uppercase+left+fill+precision", "boolalpha+showpos+scientific", "margin-moved-left-by-the-caller" };
   switch (preset) {
   case 1: os.setf(std::ios_base::hex, std::ios_base::basefield); os.setf(std::ios_base::showbase); break;
   case 2: os.setf(std::ios_base::oct, std::ios_base::basefield); break;
   case 3: os.setf(std::ios_base::uppercase); os.setf(std::ios_base::left, std::ios_base::adjustfield); os.fill('*'); os.precision(3); break;
   case 4: os.setf(std::ios_base::boolalpha | std::ios_base::showpos); os.setf(std::ios_base::scientific, std::ios_base::floatfield); break;
   case 5: pp.indent(-4); break;          // a caller that moved the margin to the left of where the printer started
   default: break;
   }
   Snapshot s0(os, pp);
   try { pp << b.unit; }
   catch (const std::logic_error& e) { state += std::string("|logic_error:") + e.what(); }
   catch (const std::exception& e) { state += std::string("|exception:") + typeid(e).name(); }
   Snapshot s1(os, pp);
   if (s0.flags != s1.flags or s0.fill != s1.fill or s0.width != s1.width or s0.prec != s1.prec)
      state += std::string("|stream-state") + (preset ? std::string("(stream-handed-over-with:") + preset_name[preset] + ")" : std::string());
   if (s0.indent != s1.indent) state += "|indent:" + std::to_string(s1.indent);
   return os.str();
}

// num mode: the two public number-writing operators with values at every width boundary.  stdout: N <kind> <value> <hex of the text> state=<ok|...>
static int num_mode()
{
   const unsigned long long vals[] = { 0ull, 9ull, 10ull, 99ull, 100ull, 65535ull, 65536ull, 2147483647ull, 2147483648ull, 4294967295ull, 4294967296ull,
                                       999999999999999999ull, 1000000000000000000ull, 9223372036854775807ull, 9223372036854775808ull,
                                       9999999999999999999ull, 10000000000000000000ull, 18446744073709551614ull, 18446744073709551615ull };
   impl::Lexicon lex;
   for (auto v : vals)
      for (int kind = 0; kind < 2; ++kind) {
         std::ostringstream os; ipr::Printer pp(lex, os);
         Snapshot s0(os, pp);
         std::string state;
         try { if (kind == 0) pp << ipr::Mapping_level{ std::size_t(v) }; else pp << ipr::Decl_position{ std::size_t(v) }; }
         catch (const std::exception& e) { state += std::string("|exception:") + typeid(e).name(); }
         Snapshot s1(os, pp);
         if (s0.flags != s1.flags or s0.fill != s1.fill or s0.width != s1.width or s0.prec != s1.prec) state += "|stream-state";
         std::printf("N %s %llu %s state=%s\n", kind == 0 ? "Mapping_level" : "Decl_position", v, hex(os.str(), 4096).c_str(), state.empty() ? "ok" : state.c_str());
      }
   return 0;
}

static int prog_mode()
{
   std::string line;
   std::size_t n = 0;
   while (std::getline(std::cin, line)) {
      if (line.empty() or line[0] == '#') continue;
      ++n;
      if (children_timed_out >= 2) { std::printf("G %zu skipped=after-two-prints-that-did-not-finish\n", n); continue; }
      in_child("prog" + std::to_string(n), "prog", [&] {
         std::string state;
         try {
            std::size_t i = 0;
            Sx x = parse_sx(line, i);
            Builder a(false, n), b(true, n);
            a.program(x); b.program(x);
            std::string A = print_unit(a, false, state), A2 = print_unit(a, false, state), Al = print_unit(a, true, state),
                        A3 = print_unit(a, false, state), B = print_unit(b, false, state), Bl = print_unit(b, true, state);
            // the caller's own formatting choices survive a print (with locations on, so that numbers are written)
            for (int preset = 1; preset <= 5; ++preset) {
               std::string st;
               print_unit(a, true, st, preset);
               if (st.find("stream-state") != std::string::npos or st.find("indent") != std::string::npos) state += st.substr(st.find("|stream-state") != std::string::npos ? st.find("|stream-state") : 0);
            }
            std::printf("G %zu nloc=%u A=%s A2=%s Aloc=%s B=%s Bloc=%s A3=%s state=%s\n", n, a.located, hex(A, 1 << 20).c_str(), hex(A2, 1 << 20).c_str(),
                        hex(Al, 1 << 20).c_str(), hex(B, 1 << 20).c_str(), hex(Bl, 1 << 20).c_str(), hex(A3, 1 << 20).c_str(),
                        state.empty() ? "ok" : state.c_str());
         }
         catch (const std::exception& e) { std::printf("G %zu build-error=%s\n", n, e.what()); }
      });
   }
   return 0;
}

int main(int argc, char** argv)
{
   std::string mode = argc > 1 ? argv[1] : "";
   if (mode == "zoo") return zoo_mode();
   if (mode == "lit") return lit_mode();
   if (mode == "prog") return prog_mode();
   if (mode == "num") return num_mode();
   if (mode == "num") return num_mode();
   std::fprintf(stderr, "usage: print_driver zoo|lit\n");
   return 2;
}
