// region_driver.cxx — region trees, owners, positions (C12).
// stdin: one script per line: operations separated by ';'
//   unit | sub R | class R | union R | namespace R | closure R | enum R | lenum R (unscoped) | block R | handler B |
//   mapping R | lambda R | requires R | morphism R | where R | param M | enumerator E | base C | module | munit MOD
//   R: region number (creation order; a class creates two: body, bases; a handler two: eh, body)
//   B/M/E/C/MOD: number of the operation that created the block / mapping / enum / class / module
// stdout per script: one line; region facts r<i>:parent:owner:global:depth:binds  and member facts.
#include <ipr/impl>
#include <ipr/traversal>
#include <cstdio>
#include <iostream>
#include <sstream>
#include <string>
#include <vector>
#include <map>
#include <memory>
#include <stdexcept>

using namespace ipr;

struct OpRec {
   std::string kind;
   impl::Class* cls = nullptr; impl::Enum* en = nullptr; impl::Block* blk = nullptr; impl::Mapping* map = nullptr;
   impl::Handler* hnd = nullptr; impl::Module* mod = nullptr; impl::Translation_unit* unit = nullptr;
};

static void run_script(const std::string& script)
{
   impl::Lexicon lex;
   std::vector<std::unique_ptr<impl::Translation_unit>> units;
   std::vector<std::unique_ptr<impl::Module>> modules;
   std::vector<const ipr::Region*> regions;
   std::vector<impl::Region*> mutable_regions;              // nullptr for homogeneous regions
   std::vector<OpRec> ops;
   std::map<const void*, std::string> entity;               // owner Expr address -> "<op>.<role>"
   std::map<const void*, std::string> binds;                // EH parameter address -> "<op>.2"
   std::vector<std::string> members;
   auto add_region = [&](const ipr::Region& r, impl::Region* m) { regions.push_back(&r); mutable_regions.push_back(m); };
   auto reg = [&](size_t i) -> const ipr::Region& { if (i >= regions.size()) throw std::out_of_range("region"); return *regions[i]; };
   std::stringstream ss(script);
   std::string item;
   std::string out;
   while (std::getline(ss, item, ';')) {
      std::stringstream is(item);
      std::string k; long a = -1;
      is >> k >> a;
      OpRec rec; rec.kind = k;
      std::string me = std::to_string(ops.size());
      try {
         if (k == "unit") {
            units.push_back(std::make_unique<impl::Translation_unit>(lex));
            auto& u = *units.back();
            rec.unit = &u;
            add_region(*u.global_region(), u.global_region());
            entity[static_cast<const ipr::Expr*>(&u.global_namespace())] = me + ".0";
            auto id = util::view<ipr::Identifier>(u.global_namespace().name());
            members.push_back("unit" + me + ":unnamed=" + std::to_string(id != nullptr and id->string().size() == 0) +
                              ":typed_namespace=" + std::to_string(physically_same(u.global_namespace().type(), lex.namespace_type())) +
                              ":region_is_ns_region=" + std::to_string(&u.global_namespace().region() == u.global_region()));
         }
         else if (k == "sub") { auto* m = mutable_regions.at(a); if (!m) throw std::out_of_range("not heterogeneous"); auto* r = m->make_subregion(); add_region(*r, r); }
         else if (k == "class") { auto* c = lex.make_class(reg(a)); rec.cls = c; add_region(c->region(), &c->body); add_region(c->base_subobjects, nullptr); entity[static_cast<const ipr::Expr*>(c)] = me + ".0"; }
         else if (k == "union") { auto* c = lex.make_union(reg(a)); add_region(c->region(), &c->body); entity[static_cast<const ipr::Expr*>(c)] = me + ".0"; }
         else if (k == "namespace") { auto* c = lex.make_namespace(reg(a)); add_region(c->region(), &c->body); entity[static_cast<const ipr::Expr*>(c)] = me + ".0"; }
         else if (k == "closure") { auto* c = lex.make_closure(reg(a)); add_region(c->region(), &c->body); entity[static_cast<const ipr::Expr*>(c)] = me + ".0"; }
         else if (k == "enum" or k == "lenum") { auto* c = lex.make_enum(reg(a), k == "enum" ? ipr::Enum::Kind::Scoped : ipr::Enum::Kind::Legacy); rec.en = c; add_region(c->region(), nullptr); entity[static_cast<const ipr::Expr*>(c)] = me + ".0"; }
         else if (k == "block") { auto* b = lex.make_block(reg(a)); rec.blk = b; add_region(b->region(), &b->lexical_region); entity[static_cast<const ipr::Expr*>(b)] = me + ".0"; }
         else if (k == "handler") {
            auto* b = ops.at(a).blk; if (!b) throw std::out_of_range("not a block");
            // the exception type varies with the handler: an ordinary type, a pointer, the ellipsis of `catch (...)`, a class type ...
            static std::size_t handler_serial = 0;
            const ipr::Type* handler_types[] = { &lex.int_type(), &lex.ellipsis_type(), &lex.get_pointer(lex.char_type()), &lex.void_type(),
                                                 &lex.get_reference(lex.get_qualified(lex.const_qualifier(), lex.int_type())), &lex.class_type() };
            auto* h = b->new_handler(lex.get_identifier(u8"e"), *handler_types[handler_serial++ % 6]);
            rec.hnd = h;
            const ipr::Block& body = static_cast<const ipr::Handler*>(h)->body();
            add_region(body.region().enclosing(), nullptr);
            add_region(body.region(), &h->body().lexical_region);
            entity[static_cast<const ipr::Expr*>(&body)] = me + ".1";
            binds[static_cast<const ipr::Decl*>(&h->exception())] = me + ".2";
         }
         else if (k == "mapping") { auto* m = lex.make_mapping(reg(a), Mapping_level{ 1 }); rec.map = m; add_region(m->parameters().region(), nullptr); entity[static_cast<const ipr::Expr*>(m)] = me + ".0"; }
         else if (k == "lambda") { auto* m = lex.make_lambda(reg(a), Mapping_level{ 1 }); add_region(m->parameters().region(), nullptr); entity[static_cast<const ipr::Expr*>(m)] = me + ".0"; }
         else if (k == "requires") { auto* m = lex.make_requires(reg(a), Mapping_level{ 1 }); add_region(m->parameters().region(), nullptr); }
         else if (k == "morphism") {
            impl::Region* host = nullptr; for (auto m : mutable_regions) if (m) { host = m; break; }
            if (!host) throw std::out_of_range("no host");
            auto* m = host->make_function_morphism(reg(a), Mapping_level{ 1 }); add_region(m->parameters().region(), nullptr);
         }
         else if (k == "where") { auto* w = lex.make_where(reg(a)); add_region(w->region, &w->region); }
         else if (k == "param") {
            auto* m = ops.at(a).map; if (!m) throw std::out_of_range("not a mapping");
            auto before = m->parameters().elements().size();
            auto* p = m->param(lex.get_identifier(u8"p"), lex.int_type());
            members.push_back("param" + me + ":pos=" + std::to_string(size_t(p->position())) + ":want=" + std::to_string(before) +
                              ":level=" + std::to_string(size_t(p->level())) + ":home_ok=" + std::to_string(&p->home_region() == &m->parameters().region()) +
                              ":lexical_ok=" + std::to_string(&static_cast<const ipr::Parameter*>(p)->lexical_region() == &m->parameters().region()));
         }
         else if (k == "enumerator") {
            auto* e = ops.at(a).en; if (!e) throw std::out_of_range("not an enum");
            auto before = e->members().size();
            auto* x = e->add_member(lex.get_identifier(u8"k"));
            members.push_back("enumerator" + me + ":pos=" + std::to_string(size_t(x->position())) + ":want=" + std::to_string(before) +
                              ":home_ok=" + std::to_string(&x->home_region() == &e->region()) +
                              ":lexical_ok=" + std::to_string(&static_cast<const ipr::Enumerator*>(x)->lexical_region() == &e->region()) +
                              ":type_ok=" + std::to_string(physically_same(x->type(), *e)));
         }
         else if (k == "base") {
            auto* c = ops.at(a).cls; if (!c) throw std::out_of_range("not a class");
            auto before = c->bases().size();
            auto* x = c->declare_base(lex.int_type());
            members.push_back("base" + me + ":pos=" + std::to_string(size_t(x->position())) + ":want=" + std::to_string(before) +
                              ":home_ok=" + std::to_string(&x->home_region() == &c->base_subobjects));
         }
         else if (k == "module") { modules.push_back(std::make_unique<impl::Module>(lex)); rec.mod = modules.back().get();
            auto& iu = rec.mod->interface_unit();
            add_region(*rec.mod->iface.global_region(), rec.mod->iface.global_region());
            entity[static_cast<const ipr::Expr*>(&iu.global_namespace())] = me + ".0";
            members.push_back("module" + me + ":iface_parent_ok=" + std::to_string(&iu.parent_module() == rec.mod)); }
         else if (k == "munit") {
            auto* m = ops.at(a).mod; if (!m) throw std::out_of_range("not a module");
            auto before = m->implementation_units().size();
            auto* u = m->make_unit();
            add_region(*u->global_region(), u->global_region());
            entity[static_cast<const ipr::Expr*>(&u->global_namespace())] = me + ".0";
            members.push_back("munit" + me + ":parent_ok=" + std::to_string(&u->parent_module() == m) + ":listed=" +
                              std::to_string(m->implementation_units().size() == before + 1));
         }
         else rec.kind = "bad";
      }
      catch (const std::out_of_range&) { rec.kind = "skip"; }
      ops.push_back(std::move(rec));
   }
   std::map<const ipr::Region*, size_t> index;
   for (size_t i = 0; i < regions.size(); ++i) index[regions[i]] = i;
   for (size_t i = 0; i < regions.size(); ++i) {
      const ipr::Region& r = *regions[i];
      std::string parent = "-", owner = "-", bind = "-";
      bool glob = r.global();
      try { auto& p = r.enclosing(); parent = index.count(&p) ? std::to_string(index[&p]) : "?"; }
      catch (const std::logic_error&) { parent = "-"; }
      auto o = r.owner();
      if (o.is_valid()) owner = entity.count(&o.get()) ? entity[&o.get()] : "?";
      // walk outward
      long depth = 0; const ipr::Region* cur = &r; std::string root = "?";
      for (; depth <= long(regions.size()) + 1; ++depth) {
         if (cur->global()) { root = index.count(cur) ? std::to_string(index[cur]) : "?"; break; }
         try { cur = &cur->enclosing(); } catch (const std::logic_error&) { root = "stuck"; break; }
      }
      auto& elems = r.bindings().elements();
      if (elems.size() == 1 and binds.count(&*elems.begin())) bind = binds[&*elems.begin()];
      out += "r" + std::to_string(i) + ":" + parent + ":" + owner + ":" + std::to_string(glob) + ":" + std::to_string(depth) + ":" + root + ":" + bind + " ";
   }
   for (auto& m : members) out += m + " ";
   std::printf("%s\n", out.empty() ? "-" : out.c_str());
}

int main()
{
   std::string line;
   while (std::getline(std::cin, line)) {
      if (line.empty() or line[0] == '#') continue;
      try { run_script(line); }
      catch (const std::exception& e) { std::printf("error=%s\n", e.what()); }
   }
}
