// c13_driver.cxx — Lexicon constants: distinct, spelled, self-describing, process-wide,
// and every public route from a spelling to a node (C13).  Three Lexicon instances:
// two alive at once, the third created after the first was destroyed.
#include <ipr/impl>
#include <ipr/traversal>
#include <cstdio>
#include <string>
#include <vector>
#include <memory>
#include <map>

using namespace ipr;
using Acc = const ipr::Type& (ipr::Lexicon::*)() const;
struct Row { const char* name; Acc acc; };
static const Row rows[] = {
#define R(N) { #N, &ipr::Lexicon::N },
   R(void_type) R(bool_type) R(char_type) R(schar_type) R(uchar_type) R(wchar_t_type) R(char8_t_type)
   R(char16_t_type) R(char32_t_type) R(short_type) R(ushort_type) R(int_type) R(uint_type) R(long_type)
   R(ulong_type) R(long_long_type) R(ulong_long_type) R(float_type) R(double_type) R(long_double_type)
   R(ellipsis_type) R(typename_type) R(class_type) R(union_type) R(enum_type) R(namespace_type)
#undef R
};

static std::string text(const ipr::String& s)
{
   auto v = s.characters();
   return std::string(reinterpret_cast<const char*>(v.data()), v.size());
}
static std::string name_text(const ipr::Name& n)
{
   if (auto id = util::view<ipr::Identifier>(n)) return text(id->string());
   return "<not-an-identifier>";
}

// Strings that no string pool made: the String interface is open, and impl::String has public constructors
struct Client_text final : impl::Node<ipr::String> {
   std::u8string text;
   explicit Client_text(std::u8string t) : text{ std::move(t) } { }
   util::word_view characters() const final { return text; }
};

static void describe(impl::Lexicon& lex, int which, std::map<std::string, const void*>& addr)
{
   // routes from a spelling carried by a String the client made itself (the library decides by the characters)
   {
      int bad = 0, total = 0;
      std::string firstbad;
      for (auto& r : rows) {
         const ipr::Type& t = (lex.*r.acc)();
         auto spelling = name_text(t.name());
         std::u8string w(reinterpret_cast<const char8_t*>(spelling.data()), spelling.size());
         Client_text mine { w };
         impl::String direct { util::word_view(w) };
         for (const ipr::String* s : { static_cast<const ipr::String*>(&mine), static_cast<const ipr::String*>(&direct) }) {
            ++total;
            auto& id = lex.get_identifier(*s);
            if (not physically_same(id, t.name()) or not physically_same(lex.get_as_type(id), t)) { ++bad; if (firstbad.empty()) firstbad = r.name; }
         }
      }
      std::u8string d = u8"default";
      Client_text mine { d };
      ++total;
      if (not physically_same(lex.get_label(lex.get_identifier(mine)), lex.default_value())) { ++bad; if (firstbad.empty()) firstbad = "default_value"; }
      std::printf("L%d client_strings routes=%d look_alikes=%d first=%s\n", which, total, bad, firstbad.empty() ? "-" : firstbad.c_str());
   }
   for (auto& r : rows) {
      const ipr::Type& t = (lex.*r.acc)();
      auto at = util::view<ipr::As_type>(t);
      bool self = at != nullptr and physically_same(at->expr(), t) and denote_builtin_type(*at);
      bool tn = physically_same(t.type(), lex.typename_type());
      bool nat = t.transfer() == impl::cxx_transfer() and &t.transfer() == &impl::cxx_transfer();
      std::string key = r.name;
      bool same = true;
      if (addr.count(key)) same = addr[key] == &t; else addr[key] = &t;
      // routes from the spelling
      auto spelling = name_text(t.name());
      std::u8string w(reinterpret_cast<const char8_t*>(spelling.data()), spelling.size());
      bool r_id = physically_same(lex.get_identifier(w), t.name());
      bool r_ty = physically_same(lex.get_as_type(lex.get_identifier(w)), t);
      bool r_ty2 = physically_same(lex.get_as_type(lex.get_identifier(lex.get_string(w))), t);
      std::printf("L%d %s spelled=%s self=%d typename=%d natural=%d shared=%d route_id=%d route_type=%d route_type2=%d cat=%d\n",
                  which, r.name, spelling.c_str(), int(self), int(tn), int(nat), int(same), int(r_id), int(r_ty), int(r_ty2),
                  int(t.category == Category_code::As_type));
   }
   // pairwise distinct
   int clashes = 0;
   for (auto& a : rows) for (auto& b : rows)
      if (&a != &b and &(lex.*a.acc)() == &(lex.*b.acc)()) ++clashes;
   std::printf("L%d distinct_clashes=%d\n", which, clashes);
   struct S { const char* name; const ipr::Symbol& (ipr::Lexicon::*acc)() const; const char* word; Acc type; };
   const S syms[] = {
      { "false_value", &ipr::Lexicon::false_value, "false", &ipr::Lexicon::bool_type },
      { "true_value", &ipr::Lexicon::true_value, "true", &ipr::Lexicon::bool_type },
      { "nullptr_value", &ipr::Lexicon::nullptr_value, "nullptr", nullptr },
      { "default_value", &ipr::Lexicon::default_value, "default", nullptr },
      { "delete_value", &ipr::Lexicon::delete_value, "delete", &ipr::Lexicon::void_type },
   };
   for (auto& s : syms) {
      const ipr::Symbol& c = (lex.*s.acc)();
      std::string key = s.name;
      bool same = true;
      if (addr.count(key)) same = addr[key] == &c; else addr[key] = &c;
      bool typed;
      if (s.type) typed = physically_same(c.type(), (lex.*s.type)());
      else if (std::string(s.name) == "nullptr_value") {
         auto d = util::view<ipr::Decltype>(c.type());
         typed = d != nullptr and physically_same(d->expr(), c) and physically_same(lex.get_decltype(c), c.type());
      }
      else {   // default: typed `auto`
         auto at = util::view<ipr::As_type>(c.type());
         typed = at != nullptr and name_text(c.type().name()) == "auto";
      }
      std::u8string w(reinterpret_cast<const char8_t*>(s.word), std::string(s.word).size());
      bool r_name = physically_same(lex.get_identifier(w), c.name());
      std::printf("L%d %s spelled=%s typed=%d shared=%d route_name=%d\n", which, s.name, name_text(c.name()).c_str(),
                  int(typed), int(same), int(r_name));
   }
   int symclash = 0;
   for (auto& a : syms) for (auto& b : syms) if (&a != &b and &(lex.*a.acc)() == &(lex.*b.acc)()) ++symclash;
   std::printf("L%d symbol_clashes=%d\n", which, symclash);
   // linkages
   auto& c = lex.c_linkage(); auto& cxx = lex.cxx_linkage();
   bool sc = true, scx = true;
   if (addr.count("c_linkage")) sc = addr["c_linkage"] == &c; else addr["c_linkage"] = &c;
   if (addr.count("cxx_linkage")) scx = addr["cxx_linkage"] == &cxx; else addr["cxx_linkage"] = &cxx;
   std::printf("L%d linkages c=%s cxx=%s distinct=%d shared=%d%d route_w=%d%d route_s=%d%d label_default=%d\n", which,
               text(c.language().what()).c_str(), text(cxx.language().what()).c_str(), int(&c != &cxx and not (c == cxx)),
               int(sc), int(scx),
               int(&lex.get_linkage(u8"C") == &c), int(&lex.get_linkage(u8"C++") == &cxx),
               int(&lex.get_linkage(lex.get_string(u8"C")) == &c), int(&lex.get_linkage(lex.get_string(u8"C++")) == &cxx),
               int(physically_same(lex.get_label(lex.get_identifier(u8"default")), lex.default_value())));
}

// addresses of the constants, shared by every observation below, the one made before main() included
// never destroyed: it is used by the object whose destructor runs after everything else
static std::map<std::string, const void*>& addresses() { static auto* a = new std::map<std::string, const void*>; return *a; }

namespace {
   // A client object that is complete BEFORE the library is used for the first time, hence destroyed after main() has returned and after
   // every object of static storage duration constructed later (function-local statics of the library included): its destructor consults
   // a Lexicon, as a tool flushing its results at exit does.
   struct After_main {
      int armed = 1;
      After_main() { std::fflush(stdout); }
      ~After_main()
      {
         try { impl::Lexicon lex; describe(lex, 9, addresses()); }
         catch (const std::exception& e) { std::printf("L9 exception what=%s\n", e.what()); }
         std::fflush(stdout);
      }
   };
   const After_main after_main;

   // A client whose namespace-scope object consults a Lexicon while ITS translation unit is being initialized (this file is
   // linked before the library): the constants and every route from a spelling to them are the same as from main().
   struct Before_main {
      Before_main()
      {
         try { impl::Lexicon lex; describe(lex, 0, addresses()); }
         catch (const std::exception& e) { std::printf("L0 exception what=%s\n", e.what()); }
         std::fflush(stdout);
      }
   };
   const Before_main before_main;
}

int main()
{
   auto& addr = addresses();
   auto l1 = std::make_unique<impl::Lexicon>();
   auto l2 = std::make_unique<impl::Lexicon>();
   // put some work into the first two so that their tables are non-empty
   l1->get_pointer(l1->int_type()); l2->get_identifier(u8"x");
   describe(*l1, 1, addr);
   describe(*l2, 2, addr);
   l1.reset();
   auto l3 = std::make_unique<impl::Lexicon>();
   describe(*l3, 3, addr);
   describe(*l2, 2, addr);
}
