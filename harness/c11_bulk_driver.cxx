// c11_bulk_driver.cxx — the qualified-type table under many distinct main variants requested in address order (C11).
// argv[1] = n.  stdout: bulk n=<n> bad_main=<k> bad_quals=<k> bad_identity=<k> bad_nesting=<k>
#include <ipr/impl>
#include <algorithm>
#include <cstdio>
#include <cstdlib>
#include <functional>
#include <vector>
using namespace ipr;

int main(int argc, char** argv)
{
   long n = argc > 1 ? std::atol(argv[1]) : 1000;
   impl::Lexicon lex;
   std::vector<const ipr::Type*> ts;
   const ipr::Type* t = &lex.int_type();
   for (long i = 0; i < n; ++i) { t = &lex.get_pointer(*t); ts.push_back(t); }      // n distinct unqualified types
   std::sort(ts.begin(), ts.end(), std::less<const ipr::Type*>());
   long bad_main = 0, bad_quals = 0, bad_identity = 0, bad_nesting = 0;
   const ipr::Qualifiers C = lex.const_qualifier(), V = lex.volatile_qualifier();
   std::vector<const ipr::Qualified*> qs;
   for (auto x : ts) {
      auto& q = lex.get_qualified(C, *x);
      qs.push_back(&q);
      if (&q.main_variant() != x) ++bad_main;
      if (q.qualifiers() != C) ++bad_quals;
   }
   for (std::size_t i = 0; i < ts.size(); ++i) {
      if (&lex.get_qualified(C, *ts[i]) != qs[i]) ++bad_identity;
      if (&qs[i]->main_variant() != ts[i]) ++bad_main;
      if (i % 64 == 0 or i + 4096 > ts.size()) {
         auto& cv = lex.get_qualified(C | V, *ts[i]);
         auto& nested = lex.get_qualified(V, *qs[i]);
         if (&nested != &cv or &cv.main_variant() != ts[i] or cv.qualifiers() != (C | V)) ++bad_nesting;
      }
   }
   std::printf("bulk n=%ld bad_main=%ld bad_quals=%ld bad_identity=%ld bad_nesting=%ld\n", n, bad_main, bad_quals, bad_identity, bad_nesting);
}
