// scope_driver.cxx — scopes, overload sets and declaration sets (C07).
// stdin, one case per line:
//   het <kind>:<name>:<type>,...    declarations entered into a heterogeneous scope, in order
//        kind in var field bitfield typedecl alias fundecl ptemplate stemplate; name, type: small indices
//   hom param|enum|base <name>:<type>,...   members of a parameter list / enumeration / base list
// stdout, one line per case, fields described in print().
#include <ipr/impl>
#include <ipr/traversal>
#include <cstdio>
#include <iostream>
#include <sstream>
#include <string>
#include <vector>
#include <map>
#include <stdexcept>

using namespace ipr;

struct Item { std::string kind; int name; int type; };

static std::vector<Item> parse(const std::string& s)
{
   std::vector<Item> v;
   if (s == "-") return v;
   std::stringstream ss(s);
   std::string tok;
   while (std::getline(ss, tok, ',')) {
      Item it;
      size_t a = tok.find(':'), b = tok.rfind(':');
      if (a == b) { it.kind = ""; it.name = std::stoi(tok.substr(0, a)); it.type = std::stoi(tok.substr(a + 1)); }
      else { it.kind = tok.substr(0, a); it.name = std::stoi(tok.substr(a + 1, b - a - 1)); it.type = std::stoi(tok.substr(b + 1)); }
      v.push_back(it);
   }
   return v;
}

template<class F> static std::string guarded(F f)
{
   try { return f(); }
   catch (const std::logic_error&) { return "E"; }
   catch (const std::exception&) { return "X"; }
}

struct World {
   impl::Lexicon lex;
   impl::Translation_unit unit { lex };
   std::vector<const ipr::Name*> names;
   std::vector<const ipr::Type*> plain, funs, foralls;
   World()
   {
      for (int i = 0; i < 16; ++i) {
         std::u8string s = u8"n"; s += char8_t('a' + i);
         names.push_back(&lex.get_identifier(s));
      }
      // names 10 and 11 are template-ids S<int> whose template-names are names 8 and 9: declaring S<int> does not declare S
      {
         auto* args = lex.make_expr_list(); args->push_back(&lex.int_type());
         names[10] = &lex.get_template_id(*lex.make_id_expr(*names[8]), *args);
         names[11] = &lex.get_template_id(*lex.make_id_expr(*names[9]), *args);
      }
      const ipr::Type* t = &lex.int_type();
      for (int i = 0; i < 16; ++i) {
         plain.push_back(t);
         impl::Warehouse<ipr::Type> w; w.push_back(*t);
         auto& p = lex.get_product(w);
         funs.push_back(&lex.get_function(p, lex.int_type()));
         foralls.push_back(&lex.get_forall(p, lex.int_type()));
         t = &lex.get_pointer(*t);
      }
   }
   // model-side type code: plain j -> j, function j -> 16+j, forall j -> 32+j
   int type_code(const ipr::Type& t) const
   {
      for (size_t j = 0; j < plain.size(); ++j) if (plain[j] == &t) return int(j);
      for (size_t j = 0; j < funs.size(); ++j) if (funs[j] == &t) return 16 + int(j);
      for (size_t j = 0; j < foralls.size(); ++j) if (foralls[j] == &t) return 32 + int(j);
      return -1;
   }
   int name_code(const ipr::Name& n) const
   {
      for (size_t j = 0; j < names.size(); ++j) if (names[j] == &n) return int(j);
      return -1;
   }
};

static std::string join(const std::vector<std::string>& v, const char* sep = ",")
{
   std::string s;
   for (size_t i = 0; i < v.size(); ++i) { if (i) s += sep; s += v[i]; }
   return s.empty() ? "-" : s;
}

static void heterogeneous(const std::vector<Item>& items)
{
   World w;
   impl::Scope& sc = *w.unit.global_scope();
   std::vector<const ipr::Decl*> made;
   int attempted = 0, refused = 0;
   for (auto& it : items) {
      const ipr::Name& n = *w.names.at(it.name);
      const ipr::Decl* d = nullptr;
      if (it.kind == "refused") {
         // a declaration that cannot be made (an alias whose initializer has no type yet) is refused with std::logic_error and
         // declares nothing: the scope is as it was
         ++attempted;
         try { sc.make_alias(n, *w.lex.make_phantom()); }
         catch (const std::logic_error&) { ++refused; }
         continue;
      }
      if (it.kind == "var") d = sc.make_var(n, *w.plain.at(it.type));
      else if (it.kind == "field") d = sc.make_field(n, *w.plain.at(it.type));
      else if (it.kind == "bitfield") d = sc.make_bitfield(n, *w.plain.at(it.type));
      else if (it.kind == "typedecl") d = sc.make_typedecl(n, *w.plain.at(it.type));
      else if (it.kind == "alias") d = sc.make_alias(n, *w.lex.make_phantom(*w.plain.at(it.type)));
      else if (it.kind == "fundecl") d = sc.make_fundecl(n, *util::view<ipr::Function>(*w.funs.at(it.type - 16)));
      else if (it.kind == "ptemplate") d = sc.make_primary_template(n, *util::view<ipr::Forall>(*w.foralls.at(it.type - 32)));
      else if (it.kind == "stemplate") d = sc.make_secondary_template(n, *util::view<ipr::Forall>(*w.foralls.at(it.type - 32)));
      else throw std::runtime_error("bad kind " + it.kind);
      made.push_back(d);
   }
   auto index_of = [&](const ipr::Decl& d) {
      for (size_t i = 0; i < made.size(); ++i) if (made[i] == &d) return std::to_string(i);
      return std::string("?");
   };
   const ipr::Scope& isc = sc;
   // elements, in order
   std::vector<std::string> elems, types, names, tys, masters, declsets, lookups, selects;
   for (auto& d : isc.elements()) elems.push_back(index_of(d));
   auto prod = util::view<ipr::Product>(isc.type());
   if (prod) for (auto& t : prod->operand()) types.push_back(std::to_string(w.type_code(t)));
   std::string sizes = std::to_string(isc.size()) + "/" + std::to_string(isc.elements().size()) + "/" +
      (prod ? std::to_string(prod->size()) : std::string("?"));
   for (size_t i = 0; i < made.size(); ++i) {
      auto& d = *made[i];
      names.push_back(guarded([&] { return std::to_string(w.name_code(d.name())); }));
      tys.push_back(guarded([&] { return std::to_string(w.type_code(d.type())); }));
      masters.push_back(guarded([&] { return index_of(d.master()); }));
      declsets.push_back(guarded([&] {
         std::vector<std::string> v;
         for (auto& x : d.decl_set()) v.push_back(index_of(x));
         return join(v, "+");
      }));
   }
   // lookup of every name of the pool (declared or not), selection by every type code used or nearby
   std::vector<int> codes;
   for (int j = 0; j < 6; ++j) { codes.push_back(j); codes.push_back(16 + j); codes.push_back(32 + j); }
   for (size_t n = 0; n < 10; ++n) {
      auto ov = isc[*w.names[n]];
      lookups.push_back(ov.is_valid() ? "1" : "0");
      if (ov.is_valid()) {
         for (int c : codes) {
            const ipr::Type& t = c < 16 ? *w.plain[c] : (c < 32 ? *w.funs[c - 16] : *w.foralls[c - 32]);
            auto d = ov.get()[t];
            if (d.is_valid()) selects.push_back(std::to_string(n) + ":" + std::to_string(c) + ":" + index_of(d.get()));
         }
      }
   }
   std::printf("elements=%s types=%s sizes=%s names=%s dtypes=%s master=%s declset=%s lookup=%s select=%s refusals=%d/%d\n",
               join(elems).c_str(), join(types).c_str(), sizes.c_str(), join(names).c_str(), join(tys).c_str(),
               join(masters).c_str(), join(declsets).c_str(), join(lookups, "").c_str(), join(selects, ";").c_str(), refused, attempted);
}

static void homogeneous(const std::string& what, const std::vector<Item>& items)
{
   World w;
   auto& greg = *w.unit.global_region();
   std::vector<const ipr::Decl*> made;
   const ipr::Scope* scope = nullptr;
   const ipr::Region* region = nullptr;
   std::vector<std::string> pos;
   // "is it declared? no -> declare it -> use it": the name is looked up right before and right after each declaration
   std::string before_after;
   auto probe = [&](const ipr::Scope& sc, const ipr::Name& n) { before_after += sc[n].is_valid() ? '1' : '0'; };
   if (what == "param") {
      auto* m = w.lex.make_mapping(greg, Mapping_level{ 2 });
      for (auto& it : items) {
         probe(m->parameters().region().bindings(), *w.names.at(it.name));
         made.push_back(m->param(*w.names.at(it.name), *w.plain.at(it.type)));
         probe(m->parameters().region().bindings(), *w.names.at(it.name));
      }
      scope = &m->parameters().region().bindings();
      region = &m->parameters().region();
      for (auto& p : m->parameters().elements()) pos.push_back(std::to_string(size_t(p.position())));
   }
   else if (what == "enum") {
      auto* e = w.lex.make_enum(greg, ipr::Enum::Kind::Legacy);
      for (auto& it : items) {
         probe(e->region().bindings(), *w.names.at(it.name));
         made.push_back(e->add_member(*w.names.at(it.name)));
         probe(e->region().bindings(), *w.names.at(it.name));
      }
      scope = &e->region().bindings();
      region = &e->region();
      for (auto& p : e->members()) pos.push_back(std::to_string(size_t(p.position())));
   }
   else if (what == "base") {
      auto* c = w.lex.make_class(greg);
      for (auto& it : items) made.push_back(c->declare_base(*w.plain.at(it.type)));
      scope = &c->base_subobjects.bindings();
      region = &c->base_subobjects;
      for (auto& p : c->bases()) pos.push_back(std::to_string(size_t(p.position())));
   }
   else throw std::runtime_error("bad homogeneous kind");
   auto index_of = [&](const ipr::Decl& d) {
      for (size_t i = 0; i < made.size(); ++i) if (made[i] == &d) return std::to_string(i);
      return std::string("?");
   };
   std::vector<std::string> elems, masters, declsets, homes, types, byname, bytype;
   for (auto& d : scope->elements()) elems.push_back(index_of(d));
   auto prod = util::view<ipr::Product>(scope->type());
   if (prod) for (auto& t : prod->operand()) types.push_back(std::to_string(w.type_code(t)));
   for (auto d : made) {
      masters.push_back(guarded([&] { return index_of(d->master()); }));
      declsets.push_back(guarded([&] {
         std::vector<std::string> v;
         for (auto& x : d->decl_set()) v.push_back(index_of(x));
         return join(v, "+");
      }));
      homes.push_back(guarded([&] { return std::string(&d->home_region() == region ? "1" : "0"); }));
      // look the declaration up by its name, then by its type
      byname.push_back(guarded([&] {
         auto ov = (*scope)[d->name()];
         if (not ov.is_valid()) return std::string("none");
         auto sel = ov.get()[d->type()];
         return sel.is_valid() ? index_of(sel.get()) : std::string("notype");
      }));
   }
   std::printf("elements=%s types=%s size=%zu pos=%s master=%s declset=%s home=%s byname=%s probes=%s\n",
               join(elems).c_str(), join(types).c_str(), size_t(scope->size()), join(pos).c_str(), join(masters).c_str(),
               join(declsets).c_str(), join(homes, "").c_str(), join(byname).c_str(), before_after.empty() ? "-" : before_after.c_str());
}

int main()
{
   std::string line;
   while (std::getline(std::cin, line)) {
      if (line.empty() or line[0] == '#') continue;
      std::stringstream ss(line);
      std::string mode, a, b;
      ss >> mode;
      try {
         if (mode == "het") { ss >> a; heterogeneous(parse(a)); }
         else if (mode == "hom") { ss >> a >> b; homogeneous(a, parse(b)); }
         else std::printf("error=bad-mode\n");
      }
      catch (const std::exception& e) { std::printf("error=%s\n", e.what()); }
   }
}
