// threads_driver.cxx — independent Lexicons used from different threads (C20).
// argv: <threads> <rounds> <seed>.  Each thread builds and prints a program in ITS OWN
// Lexicon; the trace (printed text + identity pattern of unified nodes) is compared with
// the same program run alone on the main thread.  Built with -fsanitize=thread.
#include <ipr/impl>
#include <ipr/io>
#include <ipr/traversal>
#include <cstdio>
#include <cstdlib>
#include <sstream>
#include <string>
#include <thread>
#include <vector>
#include <random>
#include <map>
#include <atomic>

using namespace ipr;

static std::string program(unsigned id, bool yields)
{
   std::mt19937 rng(id * 7919u + 13u);
   impl::Lexicon lex;
   impl::Translation_unit unit { lex };
   auto& greg = *unit.global_region();
   std::ostringstream trace;
   std::map<const void*, int> ids;
   auto cls = [&](const void* p) { auto it = ids.find(p); if (it == ids.end()) it = ids.emplace(p, int(ids.size())).first; return it->second; };
   const ipr::Type* t = &lex.int_type();
   std::vector<const ipr::Type*> types { &lex.int_type(), &lex.bool_type(), &lex.char_type() };
   for (int i = 0; i < 300; ++i) {
      auto y = rng();
      if (yields and (y % 16) == 0) std::this_thread::yield();
      switch (rng() % 9) {
      case 0: t = &lex.get_pointer(*types[rng() % types.size()]); break;
      case 1: t = &lex.get_reference(*types[rng() % types.size()]); break;
      case 2: t = &lex.get_qualified(ipr::Qualifiers(1 + rng() % 7), *types[rng() % types.size()]); break;
      case 3: { impl::Warehouse<ipr::Type> w; w.push_back(*t); w.push_back(*types[rng() % types.size()]); t = &lex.get_function(lex.get_product(w), lex.int_type()); break; }
      case 4: { std::u8string s = u8"id"; s += char8_t('a' + rng() % 20); trace << "I" << cls(&lex.get_identifier(s)) << ' '; break; }
      case 5: { std::u8string s = u8"lit"; s += char8_t('0' + rng() % 10); trace << "L" << cls(lex.make_literal(lex.int_type(), s)) << ' '; break; }
      case 6: trace << "S" << cls(&lex.get_string(u8"int")) << cls(&lex.int_type().name()) << ' '; break;   // shared constants
      case 7: { std::u8string s = u8"v"; s += char8_t('a' + rng() % 12);
                auto* v = greg.declare_var(lex.get_identifier(s), *types[rng() % types.size()]);
                v->init = lex.make_literal(lex.int_type(), u8"7"); break; }
      case 8: { std::u8string big(1000 + rng() % 5000, u8'y'); trace << "B" << cls(&lex.get_string(big)) << ' '; break; }
      }
      trace << "T" << cls(t) << ' ';
      if (types.size() < 40) types.push_back(t);
   }
   std::ostringstream os;
   ipr::Printer pp { lex, os };
   pp << unit;
   trace << "\n" << os.str();
   return trace.str();
}

// The answers of the process-wide tables behind Lexicon::specifiers(b) / qualifiers(q), asked at a high rate by threads that
// share nothing: each thread has its own Lexicon and walks the basic names in its own order; every answer is compared with the
// named accessor of the same Lexicon.
static long hot_lookups(unsigned id, long iterations)
{
   impl::Lexicon lex;
   const char* words[] = { "export", "static", "extern", "mutable", "thread_local", "register", "inline", "constexpr", "consteval",
                           "virtual", "explicit", "friend", "typedef", "public", "protected", "private" };
   const ipr::Specifiers want[] = { lex.export_specifier(), lex.static_specifier(), lex.extern_specifier(), lex.mutable_specifier(),
                                    lex.thread_local_specifier(), lex.register_specifier(), lex.inline_specifier(), lex.constexpr_specifier(),
                                    lex.consteval_specifier(), lex.virtual_specifier(), lex.explicit_specifier(), lex.friend_specifier(),
                                    lex.typedef_specifier(), lex.public_specifier(), lex.protected_specifier(), lex.private_specifier() };
   const char* qwords[] = { "const", "volatile", "restrict" };
   const ipr::Qualifiers qwant[] = { lex.const_qualifier(), lex.volatile_qualifier(), lex.restrict_qualifier() };
   std::vector<ipr::Basic_specifier> bs;
   std::vector<ipr::Basic_qualifier> bq;
   auto logo = [&](const char* w) -> const ipr::Logogram& {
      std::string s = w;
      return lex.get_logogram(lex.get_string(util::word_view(reinterpret_cast<const char8_t*>(s.data()), s.size())));
   };
   for (auto w : words) bs.push_back(ipr::Basic_specifier{ logo(w) });
   for (auto w : qwords) bq.push_back(ipr::Basic_qualifier{ logo(w) });
   long wrong = 0;
   std::size_t k = id * 5u;
   for (long i = 0; i < iterations; ++i) {
      k = (k + 1 + id % 7) % bs.size();
      if (lex.specifiers(bs[k]) != want[k]) ++wrong;
      std::size_t q = (i + id) % bq.size();
      if (lex.qualifiers(bq[q]) != qwant[q]) ++wrong;
   }
   return wrong;
}

// ONE graph read by several threads at once, each with its own Printer and stream: printing goes through const accessors only,
// so every thread must obtain the text a single thread obtains.  (argv[1] == "shared")
static int shared_graph(int threads, int rounds)
{
   impl::Lexicon lex;
   impl::Translation_unit unit { lex };
   auto& greg = *unit.global_region();
   // functions with long parameter lists, classes with bases, blocks with handlers: the list-like stores behind them are read by position
   for (int f = 0; f < 6; ++f) {
      auto* m = lex.make_mapping(greg, Mapping_level{ 1 });
      impl::Warehouse<ipr::Type> ts;
      for (int i = 0; i < 40 + f; ++i) {
         std::u8string s = u8"p"; s += char8_t('a' + i % 26); s += char8_t('a' + f);
         auto& t = (i % 3 == 0) ? lex.get_pointer(lex.int_type()) : (i % 3 == 1 ? lex.bool_type() : lex.get_reference(lex.char_type()));
         m->param(lex.get_identifier(s), t);
         ts.push_back(t);
      }
      auto& ft = lex.get_function(lex.get_product(ts), lex.void_type());
      std::u8string n = u8"fun"; n += char8_t('0' + f);
      auto* v = greg.declare_var(lex.get_identifier(n), ft);
      (void) v;
      auto* cls = lex.make_class(greg);
      for (int b = 0; b < 12 + f; ++b) cls->declare_base(b % 2 ? lex.int_type() : lex.get_pointer(lex.char_type()));
      std::u8string cn = u8"cls"; cn += char8_t('0' + f);
      auto* td = greg.declare_type(lex.get_identifier(cn), lex.class_type()); td->init = cls;
   }
   auto print = [&] { std::ostringstream os; ipr::Printer pp { lex, os }; try { pp << unit; } catch (const std::exception& e) { os << "|exception:" << e.what(); } return os.str(); };
   const std::string want = print();
   long mismatches = 0, runs = 0;
   for (int r = 0; r < rounds; ++r) {
      std::vector<std::string> got(threads);
      std::vector<std::thread> ts;
      for (int i = 0; i < threads; ++i) ts.emplace_back([&, i] { for (int k = 0; k < 20; ++k) got[i] = print(); });
      for (auto& t : ts) t.join();
      for (int i = 0; i < threads; ++i) { ++runs; if (got[i] != want) { ++mismatches; std::printf("mismatch shared-graph round=%d thread=%d\n", r, i); } }
   }
   std::printf("shared-graph threads=%d rounds=%d bytes=%zu runs=%ld mismatches=%ld\n", threads, rounds, want.size(), runs, mismatches);
   return 0;
}

// A long-lived worker thread populates Lexicons that the coordinating thread creates and destroys in ONE reused storage slot (a
// compile server: one job after the other).  Whatever a job interns is read back by the worker; nothing of a destroyed Lexicon may
// reach the next one.  (argv[1] == "handover"; run under AddressSanitizer)
#include <mutex>
#include <condition_variable>
#include <optional>
static int handover(int jobs)
{
   std::optional<impl::Lexicon> slot;
   std::mutex m; std::condition_variable cv;
   int stage = 0;                 // even: the coordinator's turn, odd: the worker's turn; -1: stop
   long wrong = 0, done = 0;
   std::thread worker([&] {
      for (int job = 0;; ++job) {
         std::unique_lock<std::mutex> lk(m);
         cv.wait(lk, [&] { return stage == -1 or stage % 2 == 1; });
         if (stage == -1) return;
         impl::Lexicon& lex = *slot;
         for (int round = 0; round < 3; ++round)
            for (int i = 0; i < 40; ++i) {
               std::u8string w = u8"widget"; w += char8_t('a' + i % 26); w += char8_t('0' + job % 10);
               auto& id = lex.get_identifier(w);
               auto& again = lex.get_string(w);
               auto chars = id.string().characters();
               if (chars != util::word_view(w) or &again != &id.string() or again.characters() != util::word_view(w)) ++wrong;
               (void) lex.get_pointer(lex.int_type());
            }
         ++done;
         ++stage;
         cv.notify_all();
      }
   });
   for (int job = 0; job < jobs; ++job) {
      std::unique_lock<std::mutex> lk(m);
      slot.reset();                // the previous job's Lexicon dies on THIS thread ...
      slot.emplace();              // ... and the next one is built in the same storage
      ++stage;
      cv.notify_all();
      cv.wait(lk, [&] { return stage % 2 == 0; });
   }
   { std::lock_guard<std::mutex> lk(m); stage = -1; }
   cv.notify_all();
   worker.join();
   slot.reset();
   std::printf("handover jobs=%d done=%ld wrong=%ld\n", jobs, done, wrong);
   return 0;
}

int main(int argc, char** argv)
{
   if (argc > 1 and std::string(argv[1]) == "handover") return handover(argc > 2 ? std::atoi(argv[2]) : 6);
   if (argc > 1 and std::string(argv[1]) == "shared")
      return shared_graph(argc > 2 ? std::atoi(argv[2]) : 4, argc > 3 ? std::atoi(argv[3]) : 3);
   int threads = argc > 1 ? std::atoi(argv[1]) : 4;
   int rounds = argc > 2 ? std::atoi(argv[2]) : 5;
   unsigned seed = argc > 3 ? unsigned(std::atoi(argv[3])) : 1;
   long mismatches = 0, runs = 0;
   for (int r = 0; r < rounds; ++r) {
      std::vector<std::string> got(threads), want(threads);
      for (int i = 0; i < threads; ++i) want[i] = program(seed + r * 131 + i % 3, false);   // i % 3: several threads run the same program
      std::vector<std::thread> ts;
      for (int i = 0; i < threads; ++i)
         ts.emplace_back([&, i] { got[i] = program(seed + r * 131 + i % 3, true); });
      for (auto& t : ts) t.join();
      for (int i = 0; i < threads; ++i) { ++runs; if (got[i] != want[i]) { ++mismatches; std::printf("mismatch round=%d thread=%d\n", r, i); } }
   }
   // hot table look-ups from all threads at once
   {
      std::vector<long> wrong(threads, 0);
      std::vector<std::thread> ts;
      long iterations = 150000L * rounds;
      for (int i = 0; i < threads; ++i) ts.emplace_back([&, i] { wrong[i] = hot_lookups(unsigned(i + seed), iterations); });
      for (auto& t : ts) t.join();
      for (int i = 0; i < threads; ++i) { ++runs; if (wrong[i]) { ++mismatches; std::printf("mismatch hot-lookups thread=%d wrong-answers=%ld of %ld\n", i, wrong[i], 2 * iterations); } }
   }
   std::printf("threads=%d rounds=%d runs=%ld mismatches=%ld\n", threads, rounds, runs, mismatches);
   return 0;
}
