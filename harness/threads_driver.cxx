// threads_driver.cxx — independent Lexicons used from different threads (C20).
// argv: <threads> <rounds> <seed>.  Each thread builds and prints a program in ITS OWN
// Lexicon; the trace (printed text + identity pattern of unified nodes) is compared with
// the same program run alone on the main thread.  Built with -fsanitize=thread.
#include <ipr/impl>
#include <ipr/io>
#include <ipr/traversal>
#include <cstdio>
#include <cstdlib>
#include <sstream>
#include <string>
#include <thread>
#include <vector>
#include <random>
#include <map>
#include <atomic>

using namespace ipr;

static std::string program(unsigned id, bool yields)
{
   std::mt19937 rng(id * 7919u + 13u);
   impl::Lexicon lex;
   impl::Translation_unit unit { lex };
   auto& greg = *unit.global_region();
   std::ostringstream trace;
   std::map<const void*, int> ids;
   auto cls = [&](const void* p) { auto it = ids.find(p); if (it == ids.end()) it = ids.emplace(p, int(ids.size())).first; return it->second; };
   const ipr::Type* t = &lex.int_type();
   std::vector<const ipr::Type*> types { &lex.int_type(), &lex.bool_type(), &lex.char_type() };
   for (int i = 0; i < 300; ++i) {
      auto y = rng();
      if (yields and (y % 16) == 0) std::this_thread::yield();
      switch (rng() % 9) {
      case 0: t = &lex.get_pointer(*types[rng() % types.size()]); break;
      case 1: t = &lex.get_reference(*types[rng() % types.size()]); break;
      case 2: t = &lex.get_qualified(ipr::Qualifiers(1 + rng() % 7), *types[rng() % types.size()]); break;
      case 3: { impl::Warehouse<ipr::Type> w; w.push_back(*t); w.push_back(*types[rng() % types.size()]); t = &lex.get_function(lex.get_product(w), lex.int_type()); break; }
      case 4: { std::u8string s = u8"id"; s += char8_t('a' + rng() % 20); trace << "I" << cls(&lex.get_identifier(s)) << ' '; break; }
      case 5: { std::u8string s = u8"lit"; s += char8_t('0' + rng() % 10); trace << "L" << cls(lex.make_literal(lex.int_type(), s)) << ' '; break; }
      case 6: trace << "S" << cls(&lex.get_string(u8"int")) << cls(&lex.int_type().name()) << ' '; break;   // shared constants
      case 7: { std::u8string s = u8"v"; s += char8_t('a' + rng() % 12);
                auto* v = greg.declare_var(lex.get_identifier(s), *types[rng() % types.size()]);
                v->init = lex.make_literal(lex.int_type(), u8"7"); break; }
      case 8: { std::u8string big(1000 + rng() % 5000, u8'y'); trace << "B" << cls(&lex.get_string(big)) << ' '; break; }
      }
      trace << "T" << cls(t) << ' ';
      if (types.size() < 40) types.push_back(t);
   }
   std::ostringstream os;
   ipr::Printer pp { lex, os };
   pp << unit;
   trace << "\n" << os.str();
   return trace.str();
}

int main(int argc, char** argv)
{
   int threads = argc > 1 ? std::atoi(argv[1]) : 4;
   int rounds = argc > 2 ? std::atoi(argv[2]) : 5;
   unsigned seed = argc > 3 ? unsigned(std::atoi(argv[3])) : 1;
   long mismatches = 0, runs = 0;
   for (int r = 0; r < rounds; ++r) {
      std::vector<std::string> got(threads), want(threads);
      for (int i = 0; i < threads; ++i) want[i] = program(seed + r * 131 + i % 3, false);   // i % 3: several threads run the same program
      std::vector<std::thread> ts;
      for (int i = 0; i < threads; ++i)
         ts.emplace_back([&, i] { got[i] = program(seed + r * 131 + i % 3, true); });
      for (auto& t : ts) t.join();
      for (int i = 0; i < threads; ++i) { ++runs; if (got[i] != want[i]) { ++mismatches; std::printf("mismatch round=%d thread=%d\n", r, i); } }
   }
   std::printf("threads=%d rounds=%d runs=%ld mismatches=%ld\n", threads, rounds, runs, mismatches);
   return 0;
}
