// zoo_dump_driver_part.cxx — slice PART of the dump visitor's member functions.
#include "zoo_dump.h"
using namespace iprv;
#define IPRV_STR2(x) #x
#define IPRV_STR(x) IPRV_STR2(x)
#define IPRV_CAT2(a, b) a##b
#define IPRV_CAT(a, b) IPRV_CAT2(a, b)
#if PART == 0
#define SINK(X) void Dump_visitor::visit(const ipr::X& x) { out = std::string("SINK:" #X " ") + dump(x); }
#include "sinks.def"
#undef SINK
#endif
#define HOOK(X) void Dump_visitor::visit(const ipr::X& x) { out = dump(x); }
#include IPRV_STR(IPRV_CAT(hooks_part_, PART).def)
#undef HOOK
