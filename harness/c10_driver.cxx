// c10_driver.cxx — specifier / qualifier algebra of impl::Lexicon (C10).
// stdin commands:
//   TABLES            singleton value of every basic name; every named accessor
//   ALL s|q           every subset of the basis: union, decomposition
//   B s|q <ma> <mb>   binary operations on the sets of two subsets (masks, hex)
//   R s|q <hexword>   ask for the set of an arbitrary logogram (spelling hex-encoded)
#include <ipr/impl>
#include <cstdio>
#include <iostream>
#include <sstream>
#include <string>
#include <vector>
#include <cstdint>

using namespace ipr;

static const char* spec_words[] = {
#define SPECWORD(W) W,
#include "specwords.def"
#undef SPECWORD
};
static const char* qual_words[] = {
#define QUALWORD(W) W,
#include "qualwords.def"
#undef QUALWORD
};

template<class Basic>
static Basic basic_of(impl::Lexicon& lex, const std::string& w)
{
   auto& s = lex.get_string(util::word_view(reinterpret_cast<const char8_t*>(w.data()), w.size()));
   return Basic{ lex.get_logogram(s) };
}

static std::string unhex(const std::string& h)
{
   std::string s;
   for (size_t i = 0; i + 1 < h.size(); i += 2) s += char(std::stoi(h.substr(i, 2), nullptr, 16));
   return s;
}

template<class Set, class Basic, class Project, class Decompose>
struct Algebra {
   impl::Lexicon& lex;
   std::vector<std::string> words;
   std::vector<Basic> basics;
   std::vector<Set> singles;
   Project project;
   Decompose decompose;
   char tag;

   std::uint64_t decomp_mask(Set x, int& count, bool& alien)
   {
      std::uint64_t m = 0;
      count = 0; alien = false;
      for (auto& b : decompose(x)) {
         ++count;
         bool hit = false;
         for (size_t i = 0; i < basics.size(); ++i)
            if (b == basics[i]) { m |= (std::uint64_t(1) << i); hit = true; }
         if (not hit) alien = true;
      }
      return m;
   }
   Set set_of(std::uint64_t mask)
   {
      Set u { };
      for (size_t i = 0; i < basics.size(); ++i)
         if (mask & (std::uint64_t(1) << i)) u |= singles[i];
      return u;
   }
   void tables()
   {
      for (size_t i = 0; i < basics.size(); ++i)
         std::printf("%c %zu %s %llx\n", tag == 's' ? 'S' : 'Q', i, words[i].c_str(), (unsigned long long) util::rep(singles[i]));
   }
   void all()
   {
      const std::uint64_t n = std::uint64_t(1) << basics.size();
      for (std::uint64_t m = 0; m < n; ++m) {
         Set u = set_of(m);
         int count; bool alien;
         auto d = decomp_mask(u, count, alien);
         std::printf("U %c %llx %llx %llx %d%s\n", tag, (unsigned long long) m, (unsigned long long) util::rep(u),
                     (unsigned long long) d, count, alien ? " ALIEN" : "");
      }
   }
   void binary(std::uint64_t ma, std::uint64_t mb)
   {
      Set a = set_of(ma), b = set_of(mb);
      int c; bool al;
      auto dor = decomp_mask(a | b, c, al);
      auto dand = decomp_mask(a & b, c, al);
      auto dxor = decomp_mask(a ^ b, c, al);
      Set t = a; t |= b; Set t2 = a; t2 &= b; Set t3 = a; t3 ^= b;
      bool compound_ok = t == (a | b) and t2 == (a & b) and t3 == (a ^ b);
      std::printf("B %c %llx %llx %llx %llx %llx %d %d\n", tag, (unsigned long long) ma, (unsigned long long) mb,
                  (unsigned long long) dor, (unsigned long long) dand, (unsigned long long) dxor,
                  int(ipr::implies(a, b)), int(compound_ok));
   }
   void refuse(const std::string& w)
   {
      std::string out;
      try {
         Set s = project(basic_of<Basic>(lex, w));
         char buf[32]; std::snprintf(buf, sizeof buf, "%llx", (unsigned long long) util::rep(s));
         out = buf;
      }
      catch (...) { out = "refused"; }
      std::string hex;
      for (unsigned char c : w) { char b[3]; std::snprintf(b, 3, "%02x", c); hex += b; }
      std::printf("R %c %s %s\n", tag, hex.c_str(), out.c_str());
   }
};

int main()
{
   impl::Lexicon lex;
   auto sp = [&](Basic_specifier b) { return lex.specifiers(b); };
   auto sd = [&](Specifiers s) { return lex.decompose(s); };
   auto qp = [&](Basic_qualifier b) { return lex.qualifiers(b); };
   auto qd = [&](Qualifiers s) { return lex.decompose(s); };
   Algebra<Specifiers, Basic_specifier, decltype(sp), decltype(sd)> S { lex, {}, {}, {}, sp, sd, 's' };
   Algebra<Qualifiers, Basic_qualifier, decltype(qp), decltype(qd)> Q { lex, {}, {}, {}, qp, qd, 'q' };
   for (auto w : spec_words) { S.words.push_back(w); S.basics.push_back(basic_of<Basic_specifier>(lex, w)); S.singles.push_back(lex.specifiers(S.basics.back())); }
   for (auto w : qual_words) { Q.words.push_back(w); Q.basics.push_back(basic_of<Basic_qualifier>(lex, w)); Q.singles.push_back(lex.qualifiers(Q.basics.back())); }
   std::string line;
   while (std::getline(std::cin, line)) {
      std::stringstream ss(line);
      std::string cmd; ss >> cmd;
      if (cmd == "TABLES") {
         S.tables(); Q.tables();
#define ACC(N) std::printf("A " #N " %llx\n", (unsigned long long) util::rep(lex.N()));
         ACC(export_specifier) ACC(static_specifier) ACC(extern_specifier) ACC(mutable_specifier)
         ACC(thread_local_specifier) ACC(register_specifier) ACC(inline_specifier) ACC(constexpr_specifier)
         ACC(consteval_specifier) ACC(virtual_specifier) ACC(abstract_specifier) ACC(explicit_specifier)
         ACC(friend_specifier) ACC(typedef_specifier) ACC(public_specifier) ACC(protected_specifier)
         ACC(private_specifier) ACC(const_qualifier) ACC(volatile_qualifier) ACC(restrict_qualifier)
#undef ACC
      }
      else if (cmd == "ALL") { std::string k; ss >> k; if (k == "s") S.all(); else Q.all(); }
      else if (cmd == "B") {
         std::string k, a, b; ss >> k >> a >> b;
         auto ma = std::stoull(a, nullptr, 16), mb = std::stoull(b, nullptr, 16);
         if (k == "s") S.binary(ma, mb); else Q.binary(ma, mb);
      }
      else if (cmd == "R") {
         std::string k, h; ss >> k >> h;
         if (k == "s") S.refuse(unhex(h)); else Q.refuse(unhex(h));
      }
   }
}
