// fsweep_driver.cxx — calls EVERY factory function of the library (dispatcher generated from the
// current source, split over NPARTS translation units) with named operands chosen by the index
// vector read from stdin, and prints every accessor of the result (C02, C09, C14).
//   stdin : <factory key> i0 i1 ...        stdout: F <factory key> args=<names> :: <accessor=value ...>
#include "fsweep_calls.h"
#include <map>

#define DECL(K) bool dispatch_part_##K(Pools&, const std::string&, const std::vector<long>&);
DECL(0) DECL(1) DECL(2) DECL(3) DECL(4) DECL(5) DECL(6) DECL(7) DECL(8) DECL(9) DECL(10) DECL(11)
#undef DECL

static bool dispatch(Pools& w, const std::string& key, const std::vector<long>& ix)
{
   static_assert(NPARTS == 12, "the part list below must match lib/gen_fsweep.py NPARTS");
   return dispatch_part_0(w, key, ix) or dispatch_part_1(w, key, ix) or dispatch_part_2(w, key, ix) or dispatch_part_3(w, key, ix)
      or dispatch_part_4(w, key, ix) or dispatch_part_5(w, key, ix) or dispatch_part_6(w, key, ix) or dispatch_part_7(w, key, ix)
      or dispatch_part_8(w, key, ix) or dispatch_part_9(w, key, ix) or dispatch_part_10(w, key, ix) or dispatch_part_11(w, key, ix);
}

// ---------------------------------------------------------------------------------------------
// history mode (C05): `fsweep_driver --history`.  stdin, one operation per line:
//    <factory key> i0 i1 ...          call a factory (dispatcher above); the result is remembered
//    C enum|mapping|class|block|xlist|namespace|module     create a container; remembered as container
//    M <container#>                   add one member to that container (enumerator, parameter, base + field,
//                                     handler, expression, variable, module unit); the member is remembered
//    S <count> <length>               intern <count> fresh words of <length> bytes; each String node is remembered
//    W <n>                            build a product from a temporary Warehouse of n types, destroy the Warehouse
//    CHECK all | CHECK <k> <seed>     re-observe all / k pseudo-randomly chosen remembered nodes
// stdout: CHANGED / MOVED lines for every discrepancy, DUP lines for equal addresses, then one summary line.
// ---------------------------------------------------------------------------------------------
struct Container {
   std::string kind;
   impl::Enum* en = nullptr; impl::Mapping* map = nullptr; impl::Class* cls = nullptr; impl::Block* blk = nullptr;
   impl::Expr_list* xl = nullptr; impl::Namespace* ns = nullptr; impl::Module* mod = nullptr;
   impl::Namespace* tmpl = nullptr;      // a namespace that receives template declarations: specializations BEFORE their primaries, redeclarations
   std::size_t added = 0;
};

static std::map<std::string, std::string> kv(const std::string& d)
{
   std::map<std::string, std::string> m;
   std::stringstream ss(d); std::string t;
   while (ss >> t) { auto e = t.find('='); if (e != std::string::npos) m[t.substr(0, e)] = t.substr(e + 1); }
   return m;
}

// a container may gain members at its end: list-valued observations may grow by a suffix, counts may grow
static bool grown_only(const std::string& before, const std::string& after)
{
   auto a = kv(before), b = kv(after);
   for (auto& [k, v] : a) {
      auto it = b.find(k);
      if (it == b.end()) return false;
      const std::string& w = it->second;
      if (v == w) continue;
      if (k == "size" or k == "try_block" or k.size() > 6 and k.substr(k.size() - 6) == ".probe") continue;
      // any other count of a growing container (whatever the accessor is called) may only grow; a flag may turn from false to true
      auto is_count = [](const std::string& x) { return not x.empty() and x.size() < 19 and x.find_first_not_of("0123456789") == std::string::npos; };
      if (is_count(v) and is_count(w) and std::stoull(w) >= std::stoull(v)) continue;
      if (v == "false" and w == "true") continue;
      auto list_prefix = [](std::string x, std::string y) {
         auto lb = x.find('['); if (lb == std::string::npos or y.compare(0, lb + 1, x, 0, lb + 1) != 0) return false;
         if (x.back() != ']' or y.back() != ']') return false;
         x.pop_back();
         return y.compare(0, x.size(), x) == 0;
      };
      if (list_prefix(v, w)) continue;
      return false;
   }
   return true;
}

static std::size_t reobserve(std::size_t i, std::size_t step, std::size_t& bad)
{
   auto& m = remembered()[i];
   const void* now = m.where();
   if (now != m.addr) { ++bad; std::printf("MOVED step=%zu node=%zu made-by=%s(%s)\n", step, i, m.key.c_str(), m.args.c_str()); }
   std::string d = m.redump();
   bool same = (d == m.first) or (m.container and grown_only(m.first, d));
   if (not same) {
      ++bad;
      std::printf("CHANGED step=%zu node=%zu made-by=%s(%s) before=[%s] after=[%s]\n", step, i, m.key.c_str(), m.args.c_str(), m.first.c_str(), d.c_str());
      m.first = d;       // report each change once
   }
   return 1;
}

static int history(Pools& w)
{
   history_mode() = true;
   std::vector<Container> cs;
   std::vector<std::unique_ptr<impl::Module>> modules;
   std::string line;
   std::size_t step = 0, reobs = 0, bad = 0, members = 0, checks = 0;
   auto note = [&](auto& obj, const std::string& key, const std::string& args, bool container = false) {
      self_ptr() = ident(obj); auto d = guarded([&] { return dump(as_iface(obj)); }); self_ptr() = nullptr;
      remember_obj(key, args, obj, d, container);
   };
   // what a name is bound to in a scope (lookup by name, then selection by type), remembered like a node: once a member was
   // entered under (name, type), the answer never changes, however many members follow
   static std::vector<std::unique_ptr<char>> tokens;
   auto note_binding = [&](const ipr::Scope& sc, const ipr::Name& nm, const ipr::Type& ty, const std::string& key, const std::string& args) {
      Remembered m;
      m.key = key; m.args = args;
      tokens.push_back(std::make_unique<char>());
      const void* token = tokens.back().get();
      m.addr = token; m.where = [token] { return token; };
      const ipr::Scope* s = &sc; const ipr::Name* n = &nm; const ipr::Type* t = &ty;
      m.redump = [s, n, t] {
         return guarded([&] {
            auto ov = (*s)[*n];
            if (not ov.is_valid()) return std::string("binding=none ");
            auto sel = ov.get()[*t];
            if (not sel.is_valid()) return std::string("binding=notype ");
            std::size_t i = 0;
            for (auto& d : s->elements()) { if (&d == &sel.get()) break; ++i; }
            return "binding=member" + std::to_string(i) + " ";
         });
      };
      m.first = m.redump();
      remembered().push_back(std::move(m));
   };
   while (std::getline(std::cin, line)) {
      if (line.empty() or line[0] == '#') continue;
      ++step;
      std::stringstream ss(line);
      std::string key; ss >> key;
      try {
         if (key == "CHECK") {
            std::string a; ss >> a; ++checks;
            auto n = remembered().size();
            if (a == "all") { for (std::size_t i = 0; i < n; ++i) reobs += reobserve(i, step, bad); }
            else {
               std::size_t k = std::stoul(a); unsigned long long seed = 1; ss >> seed;
               for (std::size_t j = 0; j < k and n > 0; ++j) {
                  seed = seed * 6364136223846793005ULL + 1442695040888963407ULL;
                  reobs += reobserve(std::size_t(seed >> 33) % n, step, bad);
               }
            }
         }
         else if (key == "C") {
            std::string kind; ss >> kind;
            Container c; c.kind = kind;
            std::string id = std::to_string(cs.size());
            if (kind == "enum") { c.en = w.lex.make_enum(*w.greg, ipr::Enum::Kind::Scoped); note(*c.en, "C-enum", id, true); }
            else if (kind == "mapping") { c.map = w.lex.make_mapping(*w.greg, Mapping_level{ 1 }); note(*c.map, "C-mapping", id, true); note(c.map->parameters(), "C-mapping.parameters", id, true); }
            else if (kind == "class") { c.cls = w.lex.make_class(*w.greg); note(*c.cls, "C-class", id, true); }
            else if (kind == "block") { c.blk = w.lex.make_block(*w.greg); note(*c.blk, "C-block", id, true); }
            else if (kind == "xlist") { c.xl = w.lex.make_expr_list(); note(*c.xl, "C-xlist", id, true); }
            else if (kind == "namespace") { c.ns = w.lex.make_namespace(*w.greg); note(*c.ns, "C-namespace", id, true); }
            else if (kind == "templates") { c.tmpl = w.lex.make_namespace(*w.greg); note(*c.tmpl, "C-templates", id, true); }
            else if (kind == "module") { modules.push_back(std::make_unique<impl::Module>(w.lex)); c.mod = modules.back().get(); }
            else throw std::runtime_error("bad container kind");
            cs.push_back(c);
         }
         else if (key == "M") {
            std::size_t ci = 0; ss >> ci;
            auto& c = cs.at(ci % cs.size());
            std::string id = std::to_string(ci % cs.size()) + "." + std::to_string(c.added);
            auto& name = *w.ids[c.added % 12]; auto& ty = *w.types[(c.added * 5) % 12];
            if (c.en) { note(*c.en->add_member(name), "M-enumerator", id); note_binding(c.en->region().bindings(), name, c.en->members().position(0)->type(), "B-enumerator-name", id); }
            else if (c.map) { note(*c.map->param(name, ty), "M-parameter", id); note_binding(c.map->parameters().region().bindings(), name, ty, "B-parameter-name", id); }
            else if (c.cls) {
               if (c.added % 2 == 0) note(*c.cls->declare_base(ty), "M-base", id);
               else note(*c.cls->body.declare_field(name, ty), "M-field", id, true);   // its decl-set may gain redeclarations at its end
            }
            else if (c.blk) {
               if (c.added % 3 == 0) note(*c.blk->new_handler(name, ty), "M-handler", id);
               else { c.blk->add_stmt(*w.exprs[c.added % 12]); }
            }
            else if (c.xl) c.xl->push_back(w.exprs[c.added % 12]);
            else if (c.tmpl) {
               // in rounds of four: a specialization of (n, F) before any primary; then the primary of the same (n, F); then a primary of
               // another name; then a specialization of that one
               std::size_t round = c.added / 4, step = c.added % 4;
               auto& n1 = *w.ids[(2 * round) % 12]; auto& n2 = *w.ids[(2 * round + 1) % 12];
               auto& fa = w.lex.get_forall(*w.prods[round % 6], *w.types[(round * 5) % 12]);
               if (step == 0) note(*c.tmpl->body.declare_secondary_template(n1, fa), "M-specialization-first", id, true);
               else if (step == 1) note(*c.tmpl->body.declare_primary_template(n1, fa), "M-primary-after-specialization", id, true);
               else if (step == 2) note(*c.tmpl->body.declare_primary_template(n2, fa), "M-primary", id, true);
               else note(*c.tmpl->body.declare_secondary_template(n2, fa), "M-specialization", id, true);
            }
            else if (c.ns) note(*c.ns->body.declare_var(name, ty), "M-var", id, true);
            else if (c.mod) { auto* u = c.mod->make_unit(); note(u->global_namespace(), "M-unit.global_namespace", id, true); }
            ++c.added; ++members;
         }
         else if (key == "S") {
            // S <count> <length>: intern <count> fresh words of <length> bytes (the string arena grows by whole pools)
            std::size_t count = 1, len = 8; ss >> count >> len;
            static std::size_t serial = 0;
            for (std::size_t j = 0; j < count; ++j) {
               std::u8string word(len, u8'a');
               std::size_t v = ++serial;
               for (std::size_t k = 0; k < len and k < 12; ++k) { word[k] = char8_t('a' + v % 26); v /= 26; }
               word[len - 1] = char8_t('A' + serial % 26);
               note(w.lex.get_string(word), "S-string", std::to_string(serial));
            }
         }
         else if (key == "W") {
            std::size_t n = 1; ss >> n;
            const ipr::Product* p = nullptr;
            {
               impl::Warehouse<ipr::Type> h;
               for (std::size_t j = 0; j < n; ++j) h.push_back(*w.types[(j * 7 + n) % 12]);
               p = &w.lex.get_product(h);
            }                                                    // the Warehouse is gone; the product must not depend on it
            note(*p, "W-product", std::to_string(n));
         }
         else {
            std::vector<long> ix; long v;
            while (ss >> v) ix.push_back(v);
            if (not dispatch(w, key, ix)) std::printf("UNKNOWN %s\n", key.c_str());
         }
      }
      catch (const std::exception& e) { std::printf("HARNESS-ERROR step=%zu %s: %s\n", step, line.c_str(), e.what()); }
   }
   // equal addresses among remembered nodes
   std::map<const void*, std::size_t> first_at;
   std::size_t dups = 0;
   for (std::size_t i = 0; i < remembered().size(); ++i) {
      auto& m = remembered()[i];
      auto [it, fresh] = first_at.emplace(m.addr, i);
      if (not fresh) {
         auto& o = remembered()[it->second];
         ++dups;
         if (dups <= 4000) std::printf("DUP %s|%s|%s|%s\n", o.key.c_str(), o.args.c_str(), m.key.c_str(), m.args.c_str());
      }
   }
   for (std::size_t i = 0; i < cs.size(); ++i) {
      auto& c = cs[i];
      std::size_t seen = 0;
      if (c.en) seen = c.en->members().size();
      else if (c.map) seen = c.map->parameters().size();
      else if (c.cls) seen = c.cls->bases().size() + c.cls->members().size();
      else if (c.blk) seen = c.blk->handlers().size() + c.blk->body().size();
      else if (c.xl) seen = c.xl->size();
      else if (c.tmpl) seen = c.tmpl->members().size();
      else if (c.ns) seen = c.ns->members().size();
      else if (c.mod) seen = c.mod->implementation_units().size();
      std::printf("CONT %zu %s added=%zu holds=%zu\n", i, c.kind.c_str(), c.added, seen);
   }
   std::printf("SUMMARY steps=%zu nodes=%zu members=%zu checks=%zu reobservations=%zu discrepancies=%zu duplicates=%zu\n",
               step, remembered().size(), members, checks, reobs, bad, dups);
   return 0;
}

int main(int argc, char** argv)
{
   Pools w;
   if (argc > 1 and std::string(argv[1]) == "--history") return history(w);
   std::string line;
   while (std::getline(std::cin, line)) {
      if (line.empty() or line[0] == '#') continue;
      std::stringstream ss(line);
      std::string key; ss >> key;
      std::vector<long> ix; long v;
      while (ss >> v) ix.push_back(v);
      try {
         if (key == "N:qualified" and ix.size() == 3) {
            // the documented normal form: qualifying a qualified type merges the qualifiers over the unqualified type
            auto q1 = ipr::Qualifiers(U(ix[0], 7) + 1), q2 = ipr::Qualifiers(U(ix[1], 7) + 1);
            auto& t = *w.types[U(ix[2], 12)];
            auto& inner = w.lex.get_qualified(q1, t);
            auto& outer = w.lex.get_qualified(q2, inner);
            auto& direct = w.lex.get_qualified(q1 | q2, t);
            std::printf("F N:qualified args=%s;%s;%s :: qualifiers=%s main_variant=%s same=%d inner_qualifiers=%s\n", show(q1).c_str(), show(q2).c_str(),
                        show(t).c_str(), show(outer.qualifiers()).c_str(), show(outer.main_variant()).c_str(), int(&outer == &direct),
                        show(inner.qualifiers()).c_str());
         }
         else if (key == "N:transfer" and ix.size() == 3) {
            // the other documented normal form: the natural C++ transfer is not recorded
            auto& p = *w.prods[U(ix[0], 6)]; auto& t = *w.types[U(ix[1], 12)]; auto& e = *w.exprs[U(ix[2], 12)];
            auto& natural = w.lex.get_transfer(w.lex.cxx_linkage(), impl::cxx_transfer().convention());
            auto& with = w.lex.get_function(p, t, e, natural);
            auto& without = w.lex.get_function(p, t, e);
            std::printf("F N:transfer args=%s;%s;%s :: same=%d transfer=%s source=%s target=%s throws=%s\n", show(p).c_str(), show(t).c_str(), show(e).c_str(),
                        int(&with == &without), show(with.transfer()).c_str(), show(with.source()).c_str(), show(with.target()).c_str(), show(with.throws()).c_str());
         }
         else if (key == "N:levels") {
            // nesting levels at every width boundary: a parameter list and its parameters report the level they were created with
            const std::size_t levels[] = { 1, 2, 255, 256, 65535, 65536, 65537, std::size_t(1) << 31, (std::size_t(1) << 32) - 1, std::size_t(1) << 32,
                                           (std::size_t(1) << 32) + 3, std::size_t(1) << 48, ~std::size_t(0) - 1, ~std::size_t(0) };
            long bad = 0; std::size_t first_bad = 0;
            for (auto lv : levels) {
               auto* m = w.lex.make_mapping(*w.greg, Mapping_level{ lv });
               auto* p0 = m->param(*w.ids[0], *w.types[0]);
               auto* lam = w.lex.make_lambda(*w.greg, Mapping_level{ lv });
               if (std::size_t(m->parameters().level()) != lv or std::size_t(p0->level()) != lv or std::size_t(lam->parameters().level()) != lv) { if (not bad) first_bad = lv; ++bad; }
            }
            std::printf("F N:levels args=- :: levels=%zu bad=%ld first_bad=%zu\n", sizeof levels / sizeof levels[0], bad, first_bad);
         }
         else if (key == "N:vendor" and ix.size() == 4) {
            // the natural transfer is the ONLY one that is not recorded: the C++ linkage with a vendor calling convention is another transfer
            auto& p = *w.prods[U(ix[0], 6)]; auto& t = *w.types[U(ix[1], 12)]; auto& e = *w.exprs[U(ix[2], 12)]; auto& cc = *w.ccs[U(ix[3], 6)];
            auto& vendor = w.lex.get_transfer(w.lex.cxx_linkage(), cc);
            auto& with = w.lex.get_function(p, t, e, vendor);
            auto& without = w.lex.get_function(p, t, e);
            auto& as = w.lex.get_as_type(e, vendor);
            std::printf("F N:vendor args=%s;%s;%s;%s :: distinct=%d convention=%s linkage=%s as_type.convention=%s\n", show(p).c_str(), show(t).c_str(), show(e).c_str(), show(cc).c_str(),
                        int(&with != &without), show(with.transfer().convention()).c_str(), show(with.transfer().linkage()).c_str(), show(as.transfer().convention()).c_str());
         }
         else if (key == "N:reserved" and ix.size() == 2) {
            // factories given a name that is a RESERVED word (the identifier is a process-wide constant): the node still reports the
            // name and the type it was requested with
            static const char* const known[] = {
#define KNOWNWORD(X) X,
#include "knownwords.def"
#undef KNOWNWORD
            };
            const std::size_t nk = sizeof known / sizeof known[0];
            std::string word = known[std::size_t(U(ix[0], long(nk)))];
            auto& id = w.lex.get_identifier(ipr::util::word_view(reinterpret_cast<const char8_t*>(word.data()), word.size()));
            auto& t = *w.types[U(ix[1], 12)];
            auto& sym = w.lex.get_symbol(id, t);
            auto* idx = w.lex.make_id_expr(id, { &t });
            std::printf("F N:reserved args=%s;%s :: symbol.name_is_the_identifier=%d symbol.type=%s id_expr.name_is_the_identifier=%d id_expr.type=%s\n", word.c_str(), show(t).c_str(),
                        int(&sym.name() == &static_cast<const ipr::Name&>(id)), show(sym.type()).c_str(),
                        int(&idx->name() == &static_cast<const ipr::Name&>(id)), guarded([&] { return show(idx->type()); }).c_str());
         }
         else if (not dispatch(w, key, ix)) std::printf("F %s args=- :: unknown-factory\n", key.c_str());
      }
      catch (const std::exception& e) { std::printf("F %s args=- :: harness-error(%s)\n", key.c_str(), e.what()); }
   }
   return 0;
}
