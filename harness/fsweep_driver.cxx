// fsweep_driver.cxx — calls EVERY factory function of the library (dispatcher generated from the
// current source, split over NPARTS translation units) with named operands chosen by the index
// vector read from stdin, and prints every accessor of the result (C02, C09, C14).
//   stdin : <factory key> i0 i1 ...        stdout: F <factory key> args=<names> :: <accessor=value ...>
#include "fsweep_calls.h"

#define DECL(K) bool dispatch_part_##K(Pools&, const std::string&, const std::vector<long>&);
DECL(0) DECL(1) DECL(2) DECL(3) DECL(4) DECL(5) DECL(6) DECL(7) DECL(8) DECL(9) DECL(10) DECL(11)
#undef DECL

static bool dispatch(Pools& w, const std::string& key, const std::vector<long>& ix)
{
   static_assert(NPARTS == 12, "the part list below must match lib/gen_fsweep.py NPARTS");
   return dispatch_part_0(w, key, ix) or dispatch_part_1(w, key, ix) or dispatch_part_2(w, key, ix) or dispatch_part_3(w, key, ix)
      or dispatch_part_4(w, key, ix) or dispatch_part_5(w, key, ix) or dispatch_part_6(w, key, ix) or dispatch_part_7(w, key, ix)
      or dispatch_part_8(w, key, ix) or dispatch_part_9(w, key, ix) or dispatch_part_10(w, key, ix) or dispatch_part_11(w, key, ix);
}

int main()
{
   Pools w;
   std::string line;
   while (std::getline(std::cin, line)) {
      if (line.empty() or line[0] == '#') continue;
      std::stringstream ss(line);
      std::string key; ss >> key;
      std::vector<long> ix; long v;
      while (ss >> v) ix.push_back(v);
      try {
         if (not dispatch(w, key, ix)) std::printf("F %s args=- :: unknown-factory\n", key.c_str());
      }
      catch (const std::exception& e) { std::printf("F %s args=- :: harness-error(%s)\n", key.c_str(), e.what()); }
   }
   return 0;
}
