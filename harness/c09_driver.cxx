// c09_driver.cxx — the type of a growing sequence (C09): after every addition to a scope, a
// parameter list, an enumeration, a base list or an expression list, type() is re-read and must be
// the product of the current members' types in order.
//   stdin : scope|param|enum|base|xlist  t0 t1 t2 ...     (indices into a pool of 8 types)
//   stdout: G <kind> :: <types after 0 additions>|<after 1>|...|early=<the Product obtained before the first addition, read last>
#include "fsweep.h"
#include <iostream>
#include <sstream>
#include <functional>

using namespace iprv;

static std::string types_of(const ipr::Product& p)
{
   std::string s = "[";
   for (std::size_t i = 0; i < p.size(); ++i) { if (i) s += ","; s += show(p[i]); }
   return s + "]";
}

// "long <param|base|enum> <n>": ONE list of n members (member j of type T<(3j + j/8) % 8>, so that no two neighbours have the same type);
// afterwards a sample of positions (0..40, every 257th, around every power of two, the last ten) is read back: the member found there is
// the node that was returned when member p was added, it reports position p and its type, and the list's type has that type at p.
static void long_list(Pools& w, const std::string& kind, long n)
{
   auto& greg = *w.greg;
   std::vector<const ipr::Decl*> made;
   std::vector<long> want_type;
   const ipr::Sequence<ipr::Decl>* elems = nullptr;
   const ipr::Product* prod = nullptr;
   long bad_member = 0, bad_type = 0, bad_position = 0, bad_product = 0, first_bad = -1;
   std::string err;
   try {
      impl::Class* cls = nullptr; impl::Mapping* map = nullptr; impl::Enum* en = nullptr;
      if (kind == "param") map = w.lex.make_mapping(greg, Mapping_level{ 1 });
      else if (kind == "base") cls = w.lex.make_class(greg);
      else if (kind == "enum") en = w.lex.make_enum(greg, ipr::Enum::Kind::Scoped);
      else { std::printf("LONG %s bad-kind\n", kind.c_str()); return; }
      for (long j = 0; j < n; ++j) {
         long t = (3 * j + j / 8) % 8;
         want_type.push_back(t);
         if (map) made.push_back(map->param(*w.ids[j % 12], *w.types[t]));
         else if (cls) made.push_back(cls->declare_base(*w.types[t]));
         else made.push_back(en->add_member(*w.ids[j % 12]));
      }
      const ipr::Scope& sc = map ? map->parameters().region().bindings() : cls ? cls->base_subobjects.bindings() : en->region().bindings();
      elems = &sc.elements();
      prod = util::view<ipr::Product>(sc.type());
      std::vector<long> ps;
      for (long p = 0; p <= 40 and p < n; ++p) ps.push_back(p);
      for (long p = 257; p < n; p += 257) ps.push_back(p);
      for (long b = 64; b < n + 2; b *= 2) for (long d : { -1L, 0L, 1L }) if (b + d >= 0 and b + d < n) ps.push_back(b + d);
      for (long p = std::max(0L, n - 10); p < n; ++p) ps.push_back(p);
      auto position_of = [&](const ipr::Decl& d) -> long {
         if (auto x = util::view<ipr::Parameter>(d)) return long(std::size_t(x->position()));
         if (auto x = util::view<ipr::Base_type>(d)) return long(std::size_t(x->position()));
         if (auto x = util::view<ipr::Enumerator>(d)) return long(std::size_t(x->position()));
         return -1;
      };
      for (long p : ps) {
         bool bad = false;
         const ipr::Decl& d = *elems->position(std::size_t(p));
         if (&d != made[std::size_t(p)]) { ++bad_member; bad = true; }
         if (not en and &d.type() != w.types[want_type[std::size_t(p)]]) { ++bad_type; bad = true; }
         if (position_of(*made[std::size_t(p)]) != p) { ++bad_position; bad = true; }
         if (prod and not en and &(*prod)[std::size_t(p)] != w.types[want_type[std::size_t(p)]]) { ++bad_product; bad = true; }
         if (bad and first_bad < 0) first_bad = p;
      }
      if (long(elems->size()) != n or (prod and long(prod->size()) != n)) { ++bad_member; if (first_bad < 0) first_bad = n; }
   }
   catch (const std::exception& e) { err = e.what(); for (auto& c : err) if (c == ' ') c = '_'; }
   std::printf("LONG %s n=%ld bad_member=%ld bad_type=%ld bad_position=%ld bad_product=%ld first=%ld error=%s\n", kind.c_str(), n,
               bad_member, bad_type, bad_position, bad_product, first_bad, err.empty() ? "-" : err.c_str());
}

int main()
{
   Pools w;
   std::string line;
   while (std::getline(std::cin, line)) {
      if (line.empty() or line[0] == '#') continue;
      std::stringstream ss(line);
      std::string kind; ss >> kind;
      if (kind == "long") { std::string k2; long n = 0; ss >> k2 >> n; long_list(w, k2, n); continue; }
      if (kind == "arrays") {
         // declarations and redeclarations of one name with array types of unknown and known bound, pointer and function types: each
         // declaration, the id-expression naming it and the scope's type at its position report the type it was declared with
         auto* cls = w.lex.make_namespace(*w.greg);
         auto& scope = cls->body;
         auto& n8 = *w.lex.make_literal(w.lex.int_type(), u8"8"); auto& n256 = *w.lex.make_literal(w.lex.int_type(), u8"256");
         std::vector<const ipr::Type*> ts = {
            &w.lex.get_array(w.lex.uchar_type(), *w.lex.make_phantom()), &w.lex.get_array(w.lex.uchar_type(), n256), &w.lex.get_array(w.lex.int_type(), n8),
            &w.lex.get_array(w.lex.uchar_type(), n8), &w.lex.get_array(w.lex.uchar_type(), *w.lex.make_phantom()), &w.lex.get_pointer(w.lex.uchar_type()),
            &w.lex.get_array(w.lex.get_array(w.lex.int_type(), n8), *w.lex.make_phantom()), &w.lex.get_array(w.lex.get_array(w.lex.int_type(), n8), n256) };
         std::vector<const ipr::Decl*> made;
         long bad = 0; std::string first;
         for (std::size_t round = 0; round < 2; ++round)
            for (std::size_t k = 0; k < ts.size(); ++k) {
               auto* v = scope.declare_var(*w.ids[round], *ts[k]);            // the same name every time within a round
               made.push_back(v);
            }
         auto prod = util::view<ipr::Product>(scope.scope.type());
         for (std::size_t i = 0; i < made.size(); ++i) {
            const ipr::Type* want = ts[i % ts.size()];
            bool ok = &made[i]->type() == want and &w.lex.make_id_expr(*made[i])->type() == want and prod != nullptr and &(*prod)[i] == want;
            if (not ok) { ++bad; if (first.empty()) first = std::to_string(i); }
         }
         std::printf("ARRAYS declarations=%zu bad=%ld first=%s\n", made.size(), bad, first.empty() ? "-" : first.c_str());
         continue;
      }
      std::vector<long> ts; long v;
      while (ss >> v) ts.push_back(((v % 8) + 8) % 8);
      std::string out;
      try {
         auto& greg = *w.greg;
         const ipr::Product* early = nullptr;
         std::function<const ipr::Product&()> read;
         std::function<void(long, std::size_t)> add;
         impl::Class* cls = nullptr; impl::Mapping* map = nullptr; impl::Enum* en = nullptr; impl::Expr_list* xl = nullptr;
         if (kind == "scope") {
            cls = w.lex.make_class(greg);
            read = [&]() -> const ipr::Product& { return *util::view<ipr::Product>(cls->region().bindings().type()); };
            add = [&](long t, std::size_t k) { cls->body.declare_var(*w.ids[k % 12], *w.types[t]); };
         }
         else if (kind == "param") {
            map = w.lex.make_mapping(greg, Mapping_level{ 1 });
            read = [&]() -> const ipr::Product& { return map->parameters().type(); };
            add = [&](long t, std::size_t k) { map->param(*w.ids[k % 12], *w.types[t]); };
         }
         else if (kind == "base") {
            cls = w.lex.make_class(greg);
            read = [&]() -> const ipr::Product& { return *util::view<ipr::Product>(cls->base_subobjects.bindings().type()); };
            add = [&](long t, std::size_t) { cls->declare_base(*w.types[t]); };
         }
         else if (kind == "enum") {
            en = w.lex.make_enum(greg, ipr::Enum::Kind::Scoped);
            read = [&]() -> const ipr::Product& { return *util::view<ipr::Product>(en->region().bindings().type()); };
            add = [&](long, std::size_t k) { en->add_member(*w.ids[k % 12]); };
         }
         else if (kind == "xlist") {
            xl = w.lex.make_expr_list();
            read = [&]() -> const ipr::Product& { return xl->type(); };
            add = [&](long t, std::size_t) { xl->push_back(w.exprs[(t + 5) % 12]); };      // E<j> has type T<(j+7)%12>
         }
         else { std::printf("G %s :: bad-kind\n", kind.c_str()); continue; }
         early = &read();
         out += types_of(read());
         for (std::size_t k = 0; k < ts.size(); ++k) { add(ts[k], k); out += "|" + types_of(read()); }
         out += "|early=" + types_of(*early);
         if (en) out += "|enum=" + show(static_cast<const ipr::Type&>(*en));
      }
      catch (const std::logic_error& e) { out += "|E(" + std::string(e.what()) + ")"; }
      catch (const std::exception& e) { out += "|X(" + std::string(e.what()) + ")"; }
      std::printf("G %s :: %s\n", kind.c_str(), out.c_str());
   }
   return 0;
}
