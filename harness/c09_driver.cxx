// c09_driver.cxx — the type of a growing sequence (C09): after every addition to a scope, a
// parameter list, an enumeration, a base list or an expression list, type() is re-read and must be
// the product of the current members' types in order.
//   stdin : scope|param|enum|base|xlist  t0 t1 t2 ...     (indices into a pool of 8 types)
//   stdout: G <kind> :: <types after 0 additions>|<after 1>|...|early=<the Product obtained before the first addition, read last>
#include "fsweep.h"
#include <iostream>
#include <sstream>
#include <functional>

using namespace iprv;

static std::string types_of(const ipr::Product& p)
{
   std::string s = "[";
   for (std::size_t i = 0; i < p.size(); ++i) { if (i) s += ","; s += show(p[i]); }
   return s + "]";
}

int main()
{
   Pools w;
   std::string line;
   while (std::getline(std::cin, line)) {
      if (line.empty() or line[0] == '#') continue;
      std::stringstream ss(line);
      std::string kind; ss >> kind;
      std::vector<long> ts; long v;
      while (ss >> v) ts.push_back(((v % 8) + 8) % 8);
      std::string out;
      try {
         auto& greg = *w.greg;
         const ipr::Product* early = nullptr;
         std::function<const ipr::Product&()> read;
         std::function<void(long, std::size_t)> add;
         impl::Class* cls = nullptr; impl::Mapping* map = nullptr; impl::Enum* en = nullptr; impl::Expr_list* xl = nullptr;
         if (kind == "scope") {
            cls = w.lex.make_class(greg);
            read = [&]() -> const ipr::Product& { return *util::view<ipr::Product>(cls->region().bindings().type()); };
            add = [&](long t, std::size_t k) { cls->body.declare_var(*w.ids[k % 12], *w.types[t]); };
         }
         else if (kind == "param") {
            map = w.lex.make_mapping(greg, Mapping_level{ 1 });
            read = [&]() -> const ipr::Product& { return map->parameters().type(); };
            add = [&](long t, std::size_t k) { map->param(*w.ids[k % 12], *w.types[t]); };
         }
         else if (kind == "base") {
            cls = w.lex.make_class(greg);
            read = [&]() -> const ipr::Product& { return *util::view<ipr::Product>(cls->base_subobjects.bindings().type()); };
            add = [&](long t, std::size_t) { cls->declare_base(*w.types[t]); };
         }
         else if (kind == "enum") {
            en = w.lex.make_enum(greg, ipr::Enum::Kind::Scoped);
            read = [&]() -> const ipr::Product& { return *util::view<ipr::Product>(en->region().bindings().type()); };
            add = [&](long, std::size_t k) { en->add_member(*w.ids[k % 12]); };
         }
         else if (kind == "xlist") {
            xl = w.lex.make_expr_list();
            read = [&]() -> const ipr::Product& { return xl->type(); };
            add = [&](long t, std::size_t) { xl->push_back(w.exprs[(t + 5) % 12]); };      // E<j> has type T<(j+7)%12>
         }
         else { std::printf("G %s :: bad-kind\n", kind.c_str()); continue; }
         early = &read();
         out += types_of(read());
         for (std::size_t k = 0; k < ts.size(); ++k) { add(ts[k], k); out += "|" + types_of(read()); }
         out += "|early=" + types_of(*early);
         if (en) out += "|enum=" + show(static_cast<const ipr::Type&>(*en));
      }
      catch (const std::logic_error& e) { out += "|E(" + std::string(e.what()) + ")"; }
      catch (const std::exception& e) { out += "|X(" + std::string(e.what()) + ")"; }
      std::printf("G %s :: %s\n", kind.c_str(), out.c_str());
   }
   return 0;
}
